"""C16 — the job sent to the cloud describes exactly the processor the user built."""
from __future__ import annotations
import json
import random as _pyrandom
import re

LEVEL = "proof"
RULE = ("scenario = platform (4 optional size/photon constraints, subset of {probs, sample_count, samples}) x base "
        "(RemoteProcessor built directly with add/set_circuit, or local Processor converted with from_local_processor; "
        "random circuit of 2-6 modes with BS/PS/PERM and variable parameters, optional ports) x build operations "
        "(with_input, min_detected_photons_filter incl. 0 and None, noise, set/clear post-selection, add_herald on any "
        "mode, set_value on a circuit parameter) x Sampler(max_shots_per_call incl. missing/0/negative) x session events (the same operations after "
        "conversion, add_iteration with valid and malformed entries, clear_iterations, job creation for the 3 methods, "
        "execute_async with positional/keyword/None/unknown arguments, server accepting or refusing). The real "
        "RPCHandler runs under `responses`; every captured request body is deserialised with perceval.deserialize and "
        "compared key by key with the model's payload and with the model's `describe`; circuits by matrix (1e-9) "
        "after the model's mode relabelling. A second stream enumerates the full product of optional pieces "
        "(heralds none/last/middle x input none/before/after conversion x filter None/0/2 x noise none/before/after x "
        "post-selection x ports x direct/converted). A stream of repeated jobs creates and executes three jobs from "
        "ONE processor with one change in between (a circuit parameter's value set without structural change, input, "
        "noise, filter, post-selection, herald, iteration) while the server accepts, refuses, or registers the request "
        "and then drops the connection / lets the read time out; the number of requests received and of jobs existing "
        "server-side is compared after every event. A routes stream reaches every request field by every route the "
        "API offers: the filter through the processor's setter, the experiment object, the LogicalState default, an "
        "assigned experiment, a user parameter named like it, each before / after clear_parameters and before / "
        "after conversion, filter 0; parameters through set_parameter before / after clear_parameters; noise through "
        "the constructor, the attribute, an assigned experiment; input through BasicState, LogicalState, an assigned "
        "experiment; the routes are also operations of the random sessions and are counted (route.*) in the "
        "histogram. The model's payload is computed from the processor's reported state (filter of the experiment, "
        "current parameter dict), and the processor's parameter dict is compared white-box after construction and "
        "at the end. Another stream runs Job._handle_params on arbitrary names, "
        "presets, positional and keyword arguments. Non-trivial: at least one request reached the server or a "
        "conversion/constraint/argument check refused the scenario; distinct by the full scenario tree.")
TRUSTED = ["model: coq/Model/Payload.v, PayloadX.v (hand-written; tied by this correspondence stream)",
           "the `responses` library stands for the HTTP server; the JSON body it receives is what is 'sent'"]
ASSUMPTIONS = ["circuits, noise models and post-selection expressions are carried as abstract values by the model; "
               "their wire codec is property C15 (here: deserialised with Perceval's own deserialize and compared)",
               "JSON turns the integer keys of the `heralds` dict into strings; they are compared after int()",
               "re-executing an already executed job is outside this property's alphabet (C17: sent at most once)",
               "add_herald on a mode outside the circuit is not generated (the real call corrupts the port table "
               "before raising IndexError)",
               "'parameters' (the filter) and 'iterator' are sub-objects shared with the processor / sampler: the "
               "request carries their value at execution time, every other field its value at job creation; the "
               "model and the theorems state exactly this",
               "phase noise (phase_imprecision / phase_error) is not generated: the statement sets it aside",
               "an experiment assigned to a RemoteProcessor is given the platform's name: AProcessor.name is the "
               "experiment's name and prepare_job_payload sends it as 'platform_name' (an assigned experiment with its "
               "default name would address the job to a platform called 'Experiment'; outside the statement)",
               "StateVector / SVDistribution inputs are not generated: prepare_job_payload refuses them "
               "(len() of a distribution is compared with the mode count; remove_modes does not exist on them)",
               "photon-count constraints are those the code checks: photons on the modes of interest + expected herald "
               "photons; when add_herald is called after with_input the stored input is older than the herald and its "
               "own photon count can differ (counted in the histogram, not judged)"]
EXPLANATION = ("`Conversion preserves the processor` is proved for the current code (C16_from_local_preserves). It was "
               "refuted for the code before repo commit 55925315 (heralds + input -> AssertionError, kept as "
               "C16_from_local_preserves_refuted_old_code); that witness and the witness of the simplifier defect "
               "repaired in 4e70c855 stay in the corpus as regression guards.")

METHODS = ["probs", "sample_count", "samples"]
KW_NAMES = ["max_samples", "max_shots", "foo", "bar", "baz"]
NOISE_KEYS = ["brightness", "indistinguishability", "g2", "transmittance"]
PS_OPS = ["==", ">", "<"]
PARAM_NAMES = ["min_detected_photons", "g2", "thresholded", "custom"]
ROUTES = {0: "input.with_input_BasicState", 1: "filter.processor_setter", 2: "noise.attribute", 3: "postselect.set",
          4: "postselect.clear", 5: "heralds.add_herald", 6: "circuit.parameter_set_value",
          7: "filter.experiment_object", 8: "parameters.set_parameter", 9: "parameters.clear_parameters",
          10: "input+filter.LogicalState_default", 11: "all.experiment_assignment(noise via constructor)"}
EXN = {"AssertionError": 1, "RuntimeError": 2, "ValueError": 3, "NotImplementedError": 4, "TypeError": 5,
       "IndexError": 6, "UnavailableModeException": 7, "HTTPError": 8, "ConnectionError": 9, "ReadTimeout": 10,
       "KeyError": 11}
SITES = [(r"Input length not compatible", 1), (r"expected must be 0 or 1", 2), (r"Another port overlaps", 3),
         (r"min_detected_photons is not set", 10), (r"Circuit too big", 11), (r"Circuit too small", 12),
         (r"Circuit and input state size do not match", 13), (r"Too many photons", 14), (r"Not enough photons", 15),
         (r"Please input a", 20), (r"must be a positive value", 21), (r"unknown key", 30), (r"unexpected type", 31),
         (r"circuit parameter .* does not exist", 32), (r"input state and processor size mismatch", 33),
         (r"Missing input state", 40), (r"cannot find a compatible primitive", 41), (r"passed twice", 51),
         (r"Unused parameters", 52), (r"not supported between", 53),
         (r"number of modes should be a strictly positive", 70), (r"Encoding / logical state size mismatch", 81)]
KEYNAMES = {0: "command", 1: "circuit", 2: "input_state", 3: "parameters", 4: "postselect", 5: "heralds", 6: "noise",
            7: "iterator", 8: "max_shots", 9: "max_samples", 10: "job_context"}
WITNESS_CID = 999983
URL = "https://c16.test"
PLATFORM = "sim:c16"


def classify(e):
    name = type(e).__name__
    code = EXN.get(name, 0)
    if name == "IndexError":
        return [1, code, 50]
    if name == "HTTPError":
        return [1, code, 60]
    if name in ("ConnectionError", "ReadTimeout"):
        return [1, code, 61]
    if name == "KeyError":
        return [1, code, 80]
    msg = str(e)
    for rx, site in SITES:
        if re.search(rx, msg):
            return [1, code, site]
    return [1, code, -1, name + ": " + msg[:120]]


# ------------------------------------------------------------------ objects from abstract values
def mk_noise(pairs):
    from perceval import NoiseModel
    return NoiseModel(**{NOISE_KEYS[k]: v / 1000 for k, v in pairs})


def mk_ps(conds):
    from perceval import PostSelect
    if not conds:
        return PostSelect()
    return PostSelect(" & ".join(f"[{','.join(str(m) for m in ms)}] {PS_OPS[op]} {val}" for ms, op, val in conds))


_CIRC_CACHE = {}


def circuit_for(cid, size, pnames):
    """Deterministic circuit from its id; returns (factory(vals), unitary(vals)); vals = [[name, value/1000], ...]."""
    import numpy as np
    from perceval import Circuit, BS, PS, PERM, P

    def build(vals):
        vd = {int(n): v / 1000 for n, v in vals}
        if cid == WITNESS_CID:       # corpus: the smallest circuit on which the herald PERM broke simplify()
            return Circuit(size).add(1, BS()).add(0, BS())
        r = _pyrandom.Random(cid * 7919 + size)
        c = Circuit(size)
        for _ in range(r.randint(1, 6)):
            t = r.choice("bbppq")
            if t == "b":
                c.add(r.randint(0, size - 2), (BS.H if r.random() < .5 else BS.Rx)(r.uniform(0.2, 2.9)))
            elif t == "p":
                c.add(r.randint(0, size - 1), PS(r.uniform(0.1, 6.0)))
            else:
                w = r.randint(2, size)
                v = list(range(w))
                r.shuffle(v)
                c.add(r.randint(0, size - w), PERM(v))
        for n in pnames:
            par = P(f"phi{n}")
            par.set_value(vd[n])
            # between two beam splitters so that the value shows in the moduli of the matrix
            pos = r.randint(0, size - 2)
            c.add(pos, BS.H(0.9)).add(pos, PS(par)).add(pos, BS.H(1.3))
        return c

    def unitary(vals):
        key = (cid, size, tuple(pnames), tuple((int(n), int(v)) for n, v in vals if int(n) in pnames))
        if key not in _CIRC_CACHE:
            _CIRC_CACHE[key] = np.array(build(vals).compute_unitary())
        return _CIRC_CACHE[key]
    return build, unitary


def relabelled_unitary(U, lab):
    import numpy as np
    n = U.shape[0]
    V = np.zeros_like(U)
    for i in range(n):
        for j in range(n):
            V[lab[i], lab[j]] = U[i, j]
    return V


# ------------------------------------------------------------------ real side
class Cloud:
    """The outside world: platform details + job creation endpoint, under `responses`."""

    def __init__(self, rsps, platform):
        self.sent = []
        self.gets = 0
        self.answer = 1          # 0 refuse (400), 1 accept, 2 lost (connection), 3 lost (read timeout), 4 first answer lost
        self.lost_once = False
        self.registered = 0      # jobs that exist server-side
        self.ids = 0
        maxm, minm, maxn, minn, pr, sc, sa = platform
        cons = {}
        for k, v in (("max_mode_count", maxm), ("min_mode_count", minm), ("max_photon_count", maxn),
                     ("min_photon_count", minn)):
            if v:
                cons[k] = v[0]
        cmds = [n for n, b in zip(METHODS, (pr, sc, sa)) if b] + ["unrelated_command"]
        specs = {"available_commands": cmds}
        if cons:
            specs["constraints"] = cons
        details = {"id": "p", "name": PLATFORM, "perfs": {}, "specs": specs, "status": "available", "type": "simulator"}

        def get_cb(req):
            self.gets += 1
            return (200, {"content-type": "application/json"}, json.dumps(details))

        def post_cb(req):
            import requests
            self.sent.append(json.loads(req.body))
            if self.answer == 0:
                return (400, {"content-type": "application/json"}, json.dumps({"error": "refused"}))
            self.registered += 1
            if self.answer in (2, 3) or (self.answer == 4 and not self.lost_once):
                self.lost_once = True
                if self.answer == 3:
                    raise requests.exceptions.ReadTimeout("read timed out (request registered, answer lost)")
                raise requests.exceptions.ConnectionError("connection dropped (request registered, answer lost)")
            self.ids += 1
            return (200, {"content-type": "application/json"}, json.dumps({"job_id": f"job-{self.ids}"}))
        import responses
        rsps.add_callback(responses.GET, re.compile(re.escape(URL) + r"/api/platform/.*"), callback=get_cb)
        rsps.add_callback(responses.POST, URL + "/api/job", callback=post_cb)


def apply_op_real(proc, op):
    from perceval import BasicState
    k = op[0]
    if k == 0:
        proc.with_input(BasicState(list(op[1])))
    elif k == 1:
        proc.min_detected_photons_filter(op[1][0] if op[1] else None)
    elif k == 2:
        proc.noise = mk_noise(op[1][0]) if op[1] else None
    elif k == 3:
        proc.set_postselection(mk_ps(op[1]))
    elif k == 4:
        proc.clear_postselection()
    elif k == 5:
        proc.add_herald(op[1], op[2])
    elif k == 6:
        proc.get_circuit_parameters()[f"phi{op[1]}"].set_value(op[2] / 1000)
    elif k == 7:
        proc.experiment.min_detected_photons_filter(op[1][0] if op[1] else None)
    elif k == 8:
        proc.set_parameter(PARAM_NAMES[op[1]], op[2][0] if op[2] else None)
    elif k == 9:
        proc.clear_parameters()
    elif k == 10:
        from perceval import LogicalState
        proc.with_input(LogicalState(list(op[1])))
    else:
        from perceval import Experiment
        (cid, size, vals), pnames, f, nz, inp = op[1], op[2], op[3], op[4], op[5]
        # named like the platform: AProcessor.name is the experiment's name and ends up in 'platform_name'
        e = Experiment(circuit_for(cid, size, pnames)[0](vals), noise=mk_noise(nz[0]) if nz else None, name=PLATFORM)
        if f:
            e.min_detected_photons_filter(f[0])
        if inp:
            e.with_input(BasicState(list(inp[0])))
        proc.experiment = e


def iteration_kwargs(it):
    from perceval import BasicState
    kw = {}
    for e in it:
        t = e[0]
        if t == 0:
            kw["circuit_params"] = {f"phi{n}": v / 1000 for n, v in e[1]}
        elif t == 1:
            kw["input_state"] = BasicState(list(e[1]))
        elif t == 2:
            kw["min_detected_photons"] = e[1]
        elif t == 3:
            kw["max_samples"] = e[1]
        elif t == 4:
            kw["max_shots"] = e[1]
        elif t == 5:
            kw["noise"] = mk_noise(e[1])
        elif t == 6:
            kw[f"unknown{e[1]}"] = 1
        else:
            bad = [("max_shots", "12"), ("input_state", [1, 0]), ("circuit_params", 3), ("noise", 0.5),
                   ("min_detected_photons", 1.5), ("max_samples", None)][e[1] % 6]
            kw[bad[0]] = bad[1]
    return kw


def proc_state(proc):
    """White-box read of what the request is assembled from."""
    st = proc.input_state
    return {"heralds": [[int(k), int(v)] for k, v in proc.heralds.items()],
            "input": None if st is None else [int(x) for x in st],
            "ps": proc.experiment.post_select_fn, "noise": proc.experiment._noise,
            "filter": proc.experiment.min_photons_filter, "size": proc.circuit_size,
            "params": dict(proc.parameters)}


def run_real(sc, mobs):
    """Runs the scenario on Perceval. `mobs` = the model's event observations (events the model skips are not run).
    Returns dict(ops, conv, built, init, events, posts (count after each event), sent, gets, final)."""
    import responses
    import numpy as np
    from perceval import RemoteProcessor, Processor
    from perceval.components import Port
    from perceval.utils import Encoding
    from perceval.runtime.rpc_handler import RPCHandler
    from perceval.algorithm import Sampler
    platform, base, ops, shots, events = sc
    base = list(base) + [[]] * (9 - len(base))
    kind, cid, size, pnames, via_set, ports = base[:6]
    piecewise = base[6]
    vals0 = base[7]
    build0, U0 = circuit_for(cid, size, pnames)
    build = lambda: build0(vals0)

    def add_pieces(proc):
        for r, c in build():
            proc.add(r[0], c)
    out = {"ops": [], "conv": None, "built": None, "init": None, "events": [], "posts": [], "sent": [], "gets": 0,
           "final": None, "U0": U0, "posts_before_events": 0, "registered": 0}
    with responses.RequestsMock(assert_all_requests_are_fired=False) as rsps:
        cloud = Cloud(rsps, platform)
        handler = RPCHandler(PLATFORM, URL, "token")
        rp = None
        try:
            if kind == 0:
                rp = RemoteProcessor(rpc_handler=handler, m=size, noise=mk_noise(base[8][0]) if base[8] else None)
                if via_set:
                    rp.set_circuit(build())
                elif piecewise:
                    add_pieces(rp)
                else:
                    rp.add(0, build())
                for m in ports:
                    rp.add_port(m, Port(Encoding.RAW, f"q{m}"))
                out["conv"] = [0]
            else:
                if piecewise:
                    lp = Processor("SLOS", size, noise=mk_noise(base[8][0]) if base[8] else None)
                    add_pieces(lp)
                else:
                    lp = Processor("SLOS", build(), noise=mk_noise(base[8][0]) if base[8] else None)
                for m in ports:
                    lp.add_port(m, Port(Encoding.RAW, f"q{m}"))
        except Exception as e:
            out["conv"] = classify(e)
            out["gets"] = cloud.gets
            out["sent"] = cloud.sent
            return out
        target = rp if kind == 0 else lp
        for op in ops:
            try:
                apply_op_real(target, op)
                out["ops"].append([0])
            except Exception as e:
                out["ops"].append(classify(e))
        if kind == 1:
            out["local"] = proc_state(lp)
            try:
                rp = RemoteProcessor.from_local_processor(lp, rpc_handler=handler)
                out["conv"] = [0]
            except Exception as e:
                out["conv"] = classify(e)
                out["gets"] = cloud.gets
                out["sent"] = cloud.sent
                return out
        out["built"] = proc_state(rp)
        out["built"]["U"] = np.array(rp.experiment.unitary_circuit().compute_unitary())
        try:
            sampler = Sampler(rp, max_shots_per_call=shots[0]) if shots else Sampler(rp)
            out["init"] = [0]
        except Exception as e:
            out["init"] = classify(e)
            out["gets"] = cloud.gets
            out["sent"] = cloud.sent
            return out
        out["posts_before_events"] = len(cloud.sent)
        jobs = []
        for ev, mo in zip(events, mobs):
            if mo == [3]:
                out["events"].append([3])
                out["posts"].append(len(cloud.sent))
                continue
            try:
                t = ev[0]
                if t == 0:
                    apply_op_real(rp, ev[1])
                elif t == 1:
                    sampler.add_iteration(**iteration_kwargs(ev[1]))
                elif t == 2:
                    sampler.clear_iterations()
                elif t == 3:
                    jobs.append(getattr(sampler, METHODS[ev[1]]))
                else:
                    _, k, args, kw, answer = ev
                    cloud.answer = int(answer)
                    cloud.lost_once = False
                    before = len(cloud.sent)
                    j = jobs[k]
                    j.execute_async(*[(a[0] if a else None) for a in args],
                                    **{KW_NAMES[n]: (v[0] if v else None) for n, v in kw})
                    out["events"].append([2])
                    out["posts"].append(len(cloud.sent))
                    if j.id is None or len(cloud.sent) != before + 1:
                        out["events"][-1] = [9, "execute returned without exactly one request / without a job id"]
                    continue
                out["events"].append([0])
            except Exception as e:
                out["events"].append(classify(e))
            out["posts"].append(len(cloud.sent))
        out["final"] = proc_state(rp)
        out["final"]["U"] = np.array(rp.experiment.unitary_circuit().compute_unitary())
        out["registered"] = cloud.registered
        out["gets"] = cloud.gets
        out["sent"] = cloud.sent
    return out


# ------------------------------------------------------------------ comparison
def opt(x):
    return x[0] if x else None


def compare_proc(mp, real, U0, where):
    """mp: model of_proc tree; real: proc_state dict. Returns list of (sig, what, expected, observed)."""
    import numpy as np
    errs = []
    circ, _pn, _ports, her, inp, ps, nz, flt, params = mp
    exp_params = {PARAM_NAMES[k]: opt(v) for k, v in params}
    if exp_params != real["params"]:
        errs.append((f"{where}-parameters", "the processor's parameter dict differs", exp_params, real["params"]))
    if [list(h) for h in her] != real["heralds"]:
        errs.append((f"{where}-heralds", "heralds differ", her, real["heralds"]))
    if opt(inp) != real["input"]:
        errs.append((f"{where}-input", "stored input state differs", opt(inp), real["input"]))
    eps = None if not ps else mk_ps([(c[0], c[1], c[2]) for c in ps[0]])
    if not (eps == real["ps"] if eps is not None else real["ps"] is None):
        errs.append((f"{where}-postselect", "post-selection differs", str(eps), str(real["ps"])))
    en = None if not nz else mk_noise(nz[0])
    if not (en == real["noise"] if en is not None else real["noise"] is None):
        errs.append((f"{where}-noise", "noise differs", str(en), str(real["noise"])))
    if opt(flt) != real["filter"]:
        errs.append((f"{where}-filter", "min_detected_photons differs", opt(flt), real["filter"]))
    if "U" in real:
        V = relabelled_unitary(U0(circ[3]), circ[2])
        if real["U"].shape != V.shape or not np.allclose(real["U"], V, atol=1e-9, rtol=0):
            errs.append((f"{where}-matrix", "circuit matrix differs from the relabelled matrix of the built circuit",
                         circ[2], "max abs diff %g" % (np.abs(real["U"] - V).max() if real["U"].shape == V.shape else -1)))
    return errs


def expected_iteration(it):
    from perceval import BasicState
    d = {}
    for e in it:
        t = e[0]
        if t == 0:
            d["circuit_params"] = {f"phi{n}": v / 1000 for n, v in e[1]}
        elif t == 1:
            d["input_state"] = BasicState(list(e[1]))
        elif t == 2:
            d["min_detected_photons"] = e[1]
        elif t == 3:
            d["max_samples"] = e[1]
        elif t == 4:
            d["max_shots"] = e[1]
        elif t == 5:
            d["noise"] = mk_noise(e[1])
    return d


def compare_request(mreq, raw, U0):
    """mreq: [payload, job index, describe]; raw: the JSON body received. Returns list of (sig, what, exp, obs)."""
    import numpy as np
    from perceval import BasicState, NoiseModel, PostSelect
    from perceval.components import ACircuit
    from perceval.serialization import deserialize
    errs = []
    mpl, _k, view = mreq
    if raw.get("platform_name") != PLATFORM:
        errs.append(("request-platform", "platform_name", PLATFORM, raw.get("platform_name")))
    try:
        D = deserialize(raw)["payload"]
    except Exception as e:
        return [("request-undeserialisable", f"deserialize raised {type(e).__name__}: {e}", None, str(raw)[:300])]
    exp_keys = sorted(KEYNAMES.get(k, KW_NAMES[k - 9] if 11 <= k < 14 else f"k{k}") for k, _ in mpl)
    if sorted(D.keys()) != exp_keys:
        errs.append(("request-keys", "payload keys differ", exp_keys, sorted(D.keys())))
        return errs
    for k, (tag, val) in mpl:
        name = KEYNAMES.get(k, KW_NAMES[k - 9] if 11 <= k < 14 else f"k{k}")
        got = D[name]
        if tag == 0:
            ok, exp = got == METHODS[val], METHODS[val]
        elif tag == 1:
            exp = "matrix id %d with parameter values %s relabelled %s" % (val[0], val[3], val[2])
            ok = isinstance(got, ACircuit) and got.m == val[1]
            if ok:
                V = relabelled_unitary(U0(val[3]), val[2])
                ok = bool(np.allclose(np.array(got.compute_unitary()), V, atol=1e-9, rtol=0))
        elif tag == 2:
            exp = list(val)
            ok = isinstance(got, BasicState) and [int(x) for x in got] == exp
        elif tag == 3:
            exp = {PARAM_NAMES[k_]: opt(v_) for k_, v_ in val}
            ok = got == exp
        elif tag == 4:
            exp = mk_ps([(c[0], c[1], c[2]) for c in val])
            ok = isinstance(got, PostSelect) and got == exp
            exp = str(exp)
        elif tag == 5:
            exp = sorted([int(a), int(b)] for a, b in val)
            ok = isinstance(got, dict) and sorted([int(a), int(b)] for a, b in got.items()) == exp
        elif tag == 6:
            exp = mk_noise(val)
            ok = isinstance(got, NoiseModel) and got == exp
            exp = str(exp)
        elif tag == 7:
            exp = [expected_iteration(it) for it in val]
            ok = got == exp
            exp = str(exp)
        elif tag == 8:
            exp = opt(val)
            ok = got == exp and (got is None or isinstance(got, int))
        else:
            if not val:
                exp = None
            else:
                conv, mp = val[0]
                exp = {}
                if conv:
                    a, b = conv[0]
                    exp["result_mapping"] = ["perceval.utils", f"{METHODS[a]}_to_{METHODS[b]}"]
                if mp:
                    exp["mapping_delta_parameters"] = {KW_NAMES[n]: opt(v) for n, v in mp[0]}
            ok = got == exp
        if not ok:
            errs.append((f"request-{name}", f"payload field {name} differs from the model", exp, str(got)[:300]))
    # describe: what deserialising yields, as one record
    vcmd, vcirc, vin, vher, vps, vnoise, vfilter = view
    real_view = [D.get("command"), "input_state" in D and [int(x) for x in D["input_state"]],
                 sorted([int(a), int(b)] for a, b in D.get("heralds", {}).items()),
                 D.get("postselect"), D.get("noise"), D.get("parameters", {}).get("min_detected_photons")]
    exp_view = [METHODS[vcmd[0]] if vcmd else None, list(vin[0]) if vin else False,
                sorted([int(a), int(b)] for a, b in vher),
                mk_ps([(c[0], c[1], c[2]) for c in vps[0]]) if vps else None,
                mk_noise(vnoise[0]) if vnoise else None, opt(vfilter)]
    if real_view != exp_view:
        errs.append(("request-describe", "deserialised request differs from the model's describe",
                     str(exp_view), str(real_view)))
    # statement-level checks that do not go through the model
    if isinstance(D.get("max_samples"), int) and isinstance(D.get("max_shots"), int) and D["max_samples"] > D["max_shots"]:
        errs.append(("request-max_samples-above-max_shots", "max_samples above max_shots in the request",
                     D["max_shots"], D["max_samples"]))
    return errs


def constraints_violated(platform, D):
    maxm, minm, maxn, minn = (opt(x) for x in platform[:4])
    m = D["circuit"].m
    if (maxm is not None and m > maxm) or (minm is not None and m < minm):
        return f"circuit of {m} modes outside [{minm}, {maxm}]"
    if "input_state" in D:
        st = [int(x) for x in D["input_state"]]
        if any(int(k) >= len(st) or st[int(k)] != v for k, v in D.get("heralds", {}).items()):
            # add_herald after with_input leaves a stored input whose herald modes do not hold the herald photons;
            # the code (and the model, C16_constraints_enforced) count the modes of interest + the expected heralds
            return "stale"
        n = D["input_state"].n
        if (maxn is not None and n > maxn) or (minn is not None and n < minn):
            return f"{n} photons outside [{minn}, {maxn}]"
    return None


def check_scenario(ctx, sc, mout, real):
    """Returns list of (signature, what, expected, observed)."""
    from perceval.serialization import deserialize
    errs = []
    m_ops, m_conv, m_built, m_init, m_events, m_net, m_created, m_final = mout
    kind = sc[1][0]
    U0 = real["U0"]
    # ---- build operations
    if real["ops"] and [o[:3] for o in real["ops"]] != [o[:3] for o in m_ops]:
        errs.append(("build-ops", "a build operation was accepted/refused differently", m_ops, real["ops"]))
        return errs
    # ---- conversion
    if real["conv"][:3] != m_conv[:3]:
        sig = "conversion"
        msg = real["conv"][3] if len(real["conv"]) > 3 else ""
        if kind == 1 and "is not a permutation" in msg:
            sig = "from-local-circuit-not-a-permutation"     # raised by rp.add(0, processor), before anything else
        elif kind == 1 and real["conv"][0] == 1 and m_conv == [0]:
            loc = real.get("local", {})
            sig = ("from-local-heralds-with-input-assertion"      # regression guard (repaired in 55925315)
                   if real["conv"][2] == 1 and loc.get("heralds") and loc.get("input") is not None
                   else "from-local-raises")
        errs.append((sig, "processor construction / conversion outcome differs from the model", m_conv, real["conv"]))
        return errs
    if kind == 1 and real["conv"][0] == 1:
        # model and code agree that the conversion is refused: is that allowed by the statement?
        loc = real.get("local", {})
        if real["conv"][2] == 1 and loc.get("heralds") and loc.get("input") is not None:
            errs.append(("from-local-heralds-with-input-assertion",
                         "from_local_processor raises AssertionError for a valid local processor that has heralds and "
                         "an input state (with_input receives the state including the herald modes)",
                         "a RemoteProcessor equivalent to the local one", real["conv"]))
        elif real["conv"][2] != 70:
            errs.append(("from-local-refused", "from_local_processor refused a valid local processor", None, real["conv"]))
        return errs
    if real["conv"][0] == 1:
        return errs          # direct construction refused by set_circuit on both sides
    errs += compare_proc(m_built, real["built"], U0, "converted" if kind == 1 else "built")
    if errs:
        return errs
    # ---- sampler construction
    if real["init"][:3] != m_init[:3]:
        errs.append(("sampler-init", "Sampler construction outcome differs", m_init, real["init"]))
        return errs
    if real["init"][0] == 1:
        if real["sent"]:
            errs.append(("sent-before-execute", "a request was sent although no job was executed", 0, len(real["sent"])))
        return errs
    if real["posts_before_events"] != 0:
        errs.append(("sent-before-execute", "a job request was sent while building the processor / sampler", 0,
                     real["posts_before_events"]))
    # ---- events, step by step
    posts = 0
    for i, (mo, ro) in enumerate(zip(m_events, real["events"])):
        if mo[:3] != ro[:3]:
            errs.append((f"event-{['op', 'add_iteration', 'clear', 'create_job', 'execute'][sc[4][i][0]]}",
                         f"event {i} observed differently", mo, ro))
            return errs
        if mo == [2] or (mo[0] == 1 and mo[1] in (8, 9, 10)):
            posts += 1           # accepted, refused (HTTP 400), or registered and the answer lost: exactly one request
        if real["posts"][i] != posts:
            sig = "sent-before-execute" if sc[4][i][0] != 4 else "execute-request-count"
            errs.append((sig, f"number of job requests after event {i}", posts, real["posts"][i]))
            return errs
    if real["gets"] != 1:
        errs.append(("extra-traffic", "platform details fetched more than once", 1, real["gets"]))
    if real["registered"] != m_created:
        errs.append(("remote-jobs-created", "number of jobs existing server-side after the session", m_created,
                     real["registered"]))
        return errs
    if len(real["sent"]) != len(m_net):
        errs.append(("execute-request-count", "number of requests received", len(m_net), len(real["sent"])))
        return errs
    for mreq, raw in zip(m_net, real["sent"]):
        errs += compare_request(mreq, raw, U0)
        if not errs:
            v = constraints_violated(sc[0], deserialize(raw)["payload"])
            if v == "stale":
                ctx.count("requests_with_input_older_than_a_herald")
            elif v:
                errs.append(("request-violates-platform-constraints", v, None, None))
    if real["final"] is not None:
        errs += compare_proc(m_final, real["final"], U0, "final")
    return errs


# ------------------------------------------------------------------ generators
def gen_noise(rng):
    keys = rng.shuffle(range(4))[:rng.rint(1, 2)]
    out = []
    for k in sorted(keys):
        out.append([k, rng.rint(1, 90) if k == 2 else rng.rint(300, 990)])
    return out


def gen_ps(rng, size):
    conds = []
    for _ in range(rng.rint(0, 2)):
        conds.append([[rng.below(size)], rng.below(3), rng.below(2)])
    # distinct modes only (a mode may appear once in a PostSelect)
    seen, out = set(), []
    for c in conds:
        if c[0][0] not in seen:
            seen.add(c[0][0])
            out.append(c)
    return out


def gen_state(rng, m, maxn=3):
    st = [0] * m
    for _ in range(rng.rint(0, maxn)):
        st[rng.below(m)] += 1
    return st


def gen_op(rng, size, nher, malformed, allow_herald=True, free_modes=None, pnames=(), ports=(), assign=None):
    m = max(size - nher, 0)
    t = rng.choice(["in", "in", "filter", "filter", "noise", "ps", "clear", "herald", "herald", "param", "param",
                    "expfilter", "expfilter", "setparam", "clearp", "logical", "assign"])
    if t == "expfilter":
        return [7, rng.choice([[], [0], [1], [2]])]
    if t == "setparam":
        return [8, rng.below(4), [] if rng.chance(1, 5) else [rng.rint(0, 9)]]
    if t == "clearp":
        return [9]
    if t == "logical":
        if len(ports) == m and m > 0 or malformed:
            n = len(ports) + (1 if malformed and rng.chance(1, 3) else 0)
            return [10, [rng.below(2) for _ in range(max(n, 1))]]
        t = "in"
    if t == "assign":
        if assign is not None:
            cid, vals0 = assign
            return [11, [cid, size, vals0], list(pnames), rng.choice([[], [0], [1], [2]]),
                    [gen_noise(rng)] if rng.chance(1, 2) else [], [gen_state(rng, size, 2)] if rng.chance(2, 3) else []]
        t = "filter"
    if t == "herald" and not allow_herald:
        t = "filter"
    if t == "param":
        if pnames and not (malformed and rng.chance(1, 4)):
            return [6, rng.choice(list(pnames)), rng.rint(100, 6000)]
        if malformed:
            return [6, rng.below(3), rng.rint(100, 6000)]
        t = "filter"
    if t == "in":
        length = m if not (malformed and rng.chance(1, 3)) else rng.choice([size, m + 1, max(m - 1, 1)])
        return [0, gen_state(rng, max(length, 1))]
    if t == "filter":
        return [1, rng.choice([[], [0], [0], [1], [2], [3]])]
    if t == "noise":
        return [2, [] if rng.chance(1, 5) else [gen_noise(rng)]]
    if t == "ps":
        return [3, gen_ps(rng, size)]
    if t == "clear":
        return [4]
    mode = rng.below(size)
    if free_modes and not (malformed and rng.chance(1, 2)):
        mode = rng.choice(free_modes)
    return [5, mode, rng.choice([0, 1, 1, 2 if malformed else 1])]


def gen_scenario(rng, malformed):
    size = rng.rint(2, 6)
    kind = rng.below(2)
    pnames = [n for n in range(3) if rng.chance(1, 3)]
    ports = [m for m in range(size) if rng.chance(1, 8)]
    platform = [[size + rng.rint(0, 2) if rng.chance(7, 8) else size - 1] if rng.chance(1, 2) else [],
                [rng.rint(1, size) if rng.chance(7, 8) else size + 1] if rng.chance(1, 2) else [],
                [rng.rint(4, 7) if rng.chance(5, 6) else rng.rint(1, 2)] if rng.chance(1, 2) else [],
                [1 if rng.chance(5, 6) else 3] if rng.chance(1, 2) else [],
                rng.chance(2, 3), rng.chance(1, 2), rng.chance(1, 2)]
    if not any(platform[4:]) and not rng.chance(1, 6):
        platform[4 + rng.below(3)] = True
    if not pnames and rng.chance(1, 2):
        pnames = [rng.below(3)]
    if rng.chance(1, 6):
        ports = list(range(size))       # every mode has a RAW port: LogicalState inputs are possible
    cid = rng.below(100000)
    vals0 = [[n, 300 + 410 * n] for n in pnames]
    base = [kind, cid, size, pnames, rng.chance(1, 3) and kind == 0, ports, rng.chance(1, 2),
            vals0, [gen_noise(rng)] if rng.chance(1, 5) else []]
    ops = []
    her = set()
    for _ in range(rng.rint(0, 6)):
        free = [m for m in range(size) if m not in her and m not in ports]
        op = gen_op(rng, size, len(her), malformed, allow_herald=len(her) < size - 1, free_modes=free, pnames=pnames,
                    ports=ports, assign=(cid, vals0) if kind == 0 else None)
        if op[0] == 11:
            her.clear()
            ports = []
        if op[0] == 5 and op[2] <= 1 and op[1] not in her and op[1] not in ports:
            her.add(op[1])
        ops.append(op)
    if not any(o[0] == 1 for o in ops) and rng.chance(5, 6):
        ops.insert(rng.below(len(ops) + 1), [1, [rng.rint(0, 2)]])
    shots = [rng.choice([1, 10, 100, 1000, 5000])]
    if malformed and rng.chance(1, 6):
        shots = rng.choice([[], [0], [-3]])
    events = []
    njobs = 0
    has_input = any(o[0] == 0 for o in ops)
    for _ in range(rng.rint(1, 9)):
        t = rng.choice(["op", "iter", "iter", "clear", "job", "job", "job", "exec", "exec", "exec"])
        if not has_input and rng.chance(5, 6):
            t = "input"
        m = size - len(her)
        if t == "input":
            events.append([0, [0, gen_state(rng, max(m, 1))]])
            has_input = True
        elif t == "op":
            free = [x for x in range(size) if x not in her and x not in ports]
            op = gen_op(rng, size, len(her), malformed, allow_herald=(len(her) < size - 1 and kind == 0), free_modes=free,
                        pnames=pnames, ports=ports if kind == 0 else (), assign=(cid, vals0))
            if op[0] == 11:
                her.clear()
                ports = []
            if op[0] == 5 and op[2] <= 1 and op[1] not in her and op[1] not in ports:
                her.add(op[1])
            events.append([0, op])
        elif t == "iter":
            it = []
            for key in rng.shuffle(range(6))[:rng.rint(1, 3)]:
                if key == 0:
                    names = pnames if pnames and not (malformed and rng.chance(1, 3)) else [rng.below(3)]
                    it.append([0, [[n, rng.rint(100, 3000)] for n in sorted(set(names))]])
                elif key == 1:
                    length = m if not (malformed and rng.chance(1, 3)) else m + 1
                    it.append([1, gen_state(rng, max(length, 1), 4)])
                elif key == 2:
                    it.append([2, rng.rint(0, 3)])
                elif key == 3:
                    it.append([3, rng.choice([5, 50, 500, 20000])])
                elif key == 4:
                    it.append([4, rng.choice([5, 50, 500])])
                else:
                    it.append([5, gen_noise(rng)])
            if malformed and rng.chance(1, 3):
                bad = [6, rng.below(3)] if rng.chance(1, 2) else [7, rng.below(6)]
                # a malformed entry replaces the well-typed entry of the same key
                badkey = {0: 4, 1: 1, 2: 0, 3: 5, 4: 2, 5: 3}.get(bad[1]) if bad[0] == 7 else None
                it = [e for e in it if e[0] != badkey]
                it.insert(rng.below(len(it) + 1), bad)
            events.append([1, it])
        elif t == "clear":
            events.append([2])
        elif t == "job":
            events.append([3, rng.below(3)])
            njobs += 1
        else:
            k = max(njobs - 1, 0) if rng.chance(3, 4) else rng.below(max(njobs, 1))
            shape = rng.below(10)
            args, kw = [], []
            if shape <= 3:
                args = [[rng.choice([1, 7, 100, 900, 20000])]]
            elif shape == 4:
                args = [[rng.choice([7, 900])], [rng.choice([3, 20000])]]
            elif shape == 5:
                kw = [[0, [rng.choice([7, 900, 20000])]]]
            elif shape == 6 and malformed:
                args = [[5], [6], [7]]
            elif shape == 7 and malformed:
                kw = [[rng.rint(1, 4), [rng.rint(1, 50)]]]
            elif shape == 8 and malformed:
                args = [[5]] if rng.chance(1, 2) else [[]]
                kw = [[0, [9] if rng.chance(2, 3) else []]]
            answer = 1
            if rng.chance(1, 5):
                answer = rng.choice([2, 3, 4])          # request registered, answer lost
            elif malformed and rng.chance(1, 4):
                answer = 0                              # HTTP 400
            events.append([4, k, args, kw, answer])
    return [platform, base, ops, shots, events]


def product_scenarios():
    """Every combination of the optional pieces on a fixed 4-mode circuit, one job each."""
    out = []
    i = 0
    for kind in (0, 1):
        for her in ("none", "last", "middle"):
            for inp in ("none", "before", "after"):
                for flt in ([], [0], [2]):
                    for nz in ("none", "before", "after"):
                        for ps in (False, True):
                            for ports in (False, True):
                                size = 4
                                hops = {"none": [], "last": [[5, 3, 1]], "middle": [[5, 1, 1], [5, 0, 0]]}[her]
                                m = size - len(hops)
                                ops = list(hops)
                                evs = []
                                if ps:
                                    ops.append([3, [[[2], 0, 1]]])
                                ops.append([1, flt])
                                noise = [2, [[[0, 500], [2, 20]]]]
                                if nz == "before":
                                    ops.append(noise)
                                elif nz == "after":
                                    evs.append([0, noise])
                                state = [0, [1] + [0] * (m - 1)]
                                if inp == "before":
                                    ops.append(state)
                                elif inp == "after":
                                    evs.append([0, state])
                                meth = i % 3
                                evs += [[3, meth], [4, 0, [[200 + i]], [], 1]]
                                platform = [[6], [2], [4], [1], i % 2 == 0, i % 4 >= 1, i % 5 == 0]
                                pn = [0] if i % 3 == 0 else []
                                base = [kind, 4242 + (i % 7), size, pn, False,
                                        [2] if ports else [], i % 2 == 1, [[n, 300 + 410 * n] for n in pn], []]
                                out.append([platform, base, ops, [100], evs])
                                i += 1
    return out


def repeated_job_scenarios(rng, n):
    """One processor, several jobs: job, execute, ONE change of the processor / sampler, job, execute (x2).
    The change kinds cover everything a request depends on: a circuit parameter's value (no structural change),
    input, noise, filter, post-selection, a herald (direct processors), an iteration; the executions draw every server
    answer (accepted, refused, request registered then connection dropped / read timed out)."""
    out = []
    for i in range(n):
        size = rng.rint(2, 5)
        kind = i % 2
        pnames = sorted(set([rng.below(3)] + ([rng.below(3)] if rng.chance(1, 2) else [])))
        platform = [[size + 2], [1], [6], [], True, True, True]
        if rng.chance(1, 3):
            platform[4 + rng.below(3)] = False
        base = [kind, rng.below(100000), size, pnames, False, [], rng.chance(1, 2), [[n_, 300 + 410 * n_] for n_ in pnames],
                [gen_noise(rng)] if rng.chance(1, 4) else []]
        ops = [[1, [rng.rint(0, 1)]]]
        her = []
        if rng.chance(1, 3) and size > 2:
            her = [rng.below(size)]
            ops.insert(0, [5, her[0], rng.below(2)])
        m = size - len(her)
        ops.append([0, gen_state(rng, m, 2)])
        evs = []
        for rnd in range(3):
            evs.append([3, rng.below(3)])
            evs.append([4, rnd, [[rng.choice([7, 500, 20000])]], [], rng.choice([1, 1, 1, 2, 3, 4, 0])])
            change = rng.choice(["param", "param", "param", "input", "noise", "filter", "ps", "herald", "iter",
                                 "expfilter", "clearp", "setparam", "assign"])
            if change == "expfilter":
                evs.append([0, [7, [rng.rint(0, 2)]]])
                continue
            if change == "clearp":
                evs.append([0, [9]])
                continue
            if change == "setparam":
                evs.append([0, [8, rng.below(4), [rng.rint(0, 9)]]])
                continue
            if change == "assign":
                evs.append([0, [11, [base[1], size, base[7]], pnames, [rng.rint(0, 2)], [], [gen_state(rng, size, 2)]]])
                her, m = [], size
                continue
            if change == "param":
                # with heralds the conversion froze the parameters (KeyError on both sides): still a valid probe
                evs.append([0, [6, rng.choice(pnames), rng.rint(100, 6000)]])
            elif change == "input":
                evs.append([0, [0, gen_state(rng, m, 2)]])
            elif change == "noise":
                evs.append([0, [2, [gen_noise(rng)]]])
            elif change == "filter":
                evs.append([0, [1, [rng.rint(0, 2)]]])
            elif change == "ps":
                evs.append([0, [3, gen_ps(rng, size)]])
            elif change == "herald" and kind == 0 and m > 1:
                free = [x for x in range(size) if x not in her]
                hm = rng.choice(free)
                her.append(hm)
                m -= 1
                evs.append([0, [5, hm, rng.below(2)]])
                evs.append([0, [0, gen_state(rng, m, 2)]])
            else:
                evs.append([1, [[4, rng.choice([5, 50])]]])
        out.append([platform, base, ops, [rng.choice([100, 1000])], evs])
    return out


def route_scenarios():
    """Every route by which the filter (and the parameter dict, the input, the noise) can come to hold its value,
    crossed with direct / converted processors and route applied before / after the conversion; two jobs each, the
    second after clear_parameters or set_parameter."""
    out = []
    size = 3
    allports = [0, 1, 2]
    filt_routes = {
        "setter": [[1, [2]]], "setter0": [[1, [0]]], "experiment": [[7, [1]]], "experiment0": [[7, [0]]],
        "logical_default": [[10, [1, 0, 1]]], "logical_after_setter": [[1, [1]], [10, [1, 1, 0]]],
        "param_named_like_filter_only": [[8, 0, [3]]],             # filter stays unset: the job must be refused
        "param_named_like_filter_then_experiment": [[8, 0, [3]], [7, [1]]],
        "setter_then_clear": [[1, [2]], [9]], "experiment_then_clear": [[7, [2]], [9]],
        "logical_then_clear": [[10, [1, 1, 1]], [9]], "clear_then_setter": [[9], [1, [1]]],
        "clear_then_experiment": [[9], [7, [0]]], "setter_then_experiment": [[1, [2]], [7, [0]]],
        "setter_then_none_on_experiment": [[1, [2]], [7, []]],
    }
    i = 0
    for kind in (0, 1):
        for when in ("before", "after"):
            if kind == 0 and when == "after":
                continue
            for name, rops in filt_routes.items():
                for nz in ("none", "attribute", "constructor"):
                    ops, evs = [], []
                    (ops if when == "before" else evs).extend(rops if when == "before" else [[0, o] for o in rops])
                    has_input = any(o[0] == 10 for o in rops)
                    if not has_input:
                        ops.append([0, [1, 0, 1]])
                    if nz == "attribute":
                        ops.append([2, [[[0, 600]]]])
                    meth = i % 3
                    evs += [[3, meth], [4, 0, [[50 + i]], [], 1],
                            [0, [9]] if i % 2 == 0 else [0, [8, 1 + i % 3, [i % 5]]],
                            [3, (meth + 1) % 3], [4, 1, [[60 + i]], [], 1]]
                    base = [kind, 777 + i % 5, size, [0] if i % 2 else [], False, allports, False,
                            [[0, 300]] if i % 2 else [], [[[2, 30]]] if nz == "constructor" else []]
                    out.append(([[], [], [], [], True, True, i % 2 == 0], base, ops, [500], evs))
                    i += 1
    # the whole experiment assigned to a remote processor (filter, input and noise arrive with it)
    for f in ([], [0], [2]):
        for pre in ([], [[1, [1]]], [[9]]):
            base = [0, 778, size, [0], False, [], False, [[0, 300]], []]
            ops = list(pre) + [[11, [778, size, [[0, 300]]], [0], f, [[[0, 700]]], [[1, 1, 0]]]]
            out.append(([[], [], [], [], True, True, True], base, ops, [500],
                        [[3, 0], [4, 0, [], [], 1], [0, [9]], [3, 1], [4, 1, [[5]], [], 1]]))
    return [list(x) for x in out]


# ------------------------------------------------------------------ shrinking
def shrink(ctx, sc, sig, evaluate):
    """Greedy deletion of build operations and events while the same signature persists."""
    cur = sc
    changed = True
    budget = 60
    while changed and budget > 0:
        changed = False
        for part in (2, 4):
            i = 0
            while i < len(cur[part]) and budget > 0:
                cand = [x for x in cur]
                cand[part] = cur[part][:i] + cur[part][i + 1:]
                budget -= 1
                try:
                    sigs = [e[0] for e in evaluate(cand)]
                except Exception:
                    sigs = []
                if sig in sigs:
                    cur = cand
                    changed = True
                else:
                    i += 1
    return cur


def describe_case(sc):
    platform, base, ops, shots, events = sc
    return {"platform": {"max_mode_count": opt(platform[0]), "min_mode_count": opt(platform[1]),
                         "max_photon_count": opt(platform[2]), "min_photon_count": opt(platform[3]),
                         "commands": [n for n, b in zip(METHODS, platform[4:]) if b]},
            "base": {"kind": "RemoteProcessor" if base[0] == 0 else "Processor -> from_local_processor",
                     "circuit_id": base[1], "modes": base[2], "parameters": base[3], "set_circuit": bool(base[4]),
                     "ports": base[5], "components_added_one_by_one": bool(len(base) > 6 and base[6]),
                     "parameter_values_x1000": base[7]},
            "ops": ops, "max_shots_per_call": opt(shots), "events": events, "tree": sc}


# ------------------------------------------------------------------ run
def silence():
    import warnings
    warnings.filterwarnings("ignore")
    try:
        from perceval.utils.logging import get_logger, channel, level
        for ch in (channel.general, channel.user, channel.resources):
            get_logger().set_level(level.off, ch)
    except Exception:
        pass


def run(ctx):
    silence()
    rng = ctx.rng

    def evaluate(sc):
        mout = ctx.model.run([(1600, sc)])[0]
        real = run_real(sc, mout[4])
        return check_scenario(ctx, sc, mout, real)

    def process(scs, stream):
        mouts = ctx.model.run([(1600, sc) for sc in scs])
        for sc, mout in zip(scs, mouts):
            try:
                real = run_real(sc, mout[4])
                errs = check_scenario(ctx, sc, mout, real)
            except Exception as e:
                import traceback
                errs = [("driver-exception", f"{type(e).__name__}: {e} {traceback.format_exc()[-600:]}", None, None)]
                real = {"sent": [], "conv": None}
            nsent = len(mout[5])
            refused = (mout[1][0] == 1 or mout[3][0] == 1 or any(o[0] == 1 for o in mout[4]))
            ctx.case(sc, nsent > 0 or refused, describe_case(sc))
            ctx.count(f"{stream}.scenarios")
            ctx.count("requests_compared", nsent)
            ctx.count("kind." + ("direct" if sc[1][0] == 0 else "converted"))
            for o in list(sc[2]) + [e[1] for e in sc[4] if e[0] == 0]:
                ctx.count("route." + ROUTES.get(o[0], "?"))
            if len(sc[1]) > 8 and sc[1][8]:
                ctx.count("route.noise.constructor")
            if mout[1][0] == 1:
                ctx.count("conversion_or_construction_refused")
            for o in mout[4]:
                ctx.count("event." + {0: "done", 1: "raised", 2: "sent", 3: "skipped"}[o[0]])
            seen = set()
            for sig, what, exp, obs in errs:
                if sig in seen:
                    continue
                seen.add(sig)
                small = sc
                if sig != "driver-exception":
                    try:
                        small = shrink(ctx, sc, sig, evaluate)
                    except Exception:
                        small = sc
                ctx.fail(sig, what, describe_case(small), expected=str(exp)[:500], observed=str(obs)[:500])

    # stream 1: the full product of optional pieces (+ corpus witnesses of the recorded findings)
    prod = product_scenarios()
    permissive = [[], [], [], [], True, True, True]
    prod.append([permissive, [1, WITNESS_CID, 4, [], False, [], True, [], []], [[5, 2, 0], [1, [1]]], [100],
                 [[0, [0, [1, 0, 0]]], [3, 0], [4, 0, [], [], 1]]])
    prod.append([permissive, [1, 4242, 4, [], False, [], False, [], []], [[5, 3, 1], [1, [1]], [0, [1, 0, 0]]], [100],
                 [[3, 0], [4, 0, [], [], 1]]])
    process(prod, "product")
    ctx.streams["optional-pieces product (every combination)"] = len(prod)

    # stream 2: random valid scenarios; stream 3: malformed
    n_valid = ctx.n(500, 6000)
    process([gen_scenario(rng, False) for _ in range(n_valid)], "random")
    ctx.streams["random scenarios"] = n_valid
    n_bad = ctx.n(300, 3000)
    process([gen_scenario(rng, True) for _ in range(n_bad)], "malformed")
    ctx.streams["malformed scenarios"] = n_bad

    # stream: every route by which a request field can get its value
    routes = route_scenarios()
    process(routes, "routes")
    ctx.streams["routes (setter / experiment object / LogicalState default / assignment / clear_parameters)"] = len(routes)

    # stream: several jobs from one processor, one change in between, every kind of server answer
    n_rep = ctx.n(300, 3000)
    process(repeated_job_scenarios(rng, n_rep), "repeated")
    ctx.streams["repeated jobs on one processor (change in between, lossy server)"] = n_rep

    # stream 4: Job._handle_params on arbitrary shapes
    n_hp = ctx.n(600, 6000)
    handle_params_stream(ctx, n_hp)
    ctx.streams["Job._handle_params"] = n_hp

    # extraction cross-check
    sample = [(1600, prod[5]), (1600, prod[400]), (1601, [[0], [[0, []]], [[1, [100]]], [[5], [6]], []])]
    a = ctx.model.run(sample)
    b = ctx.model.vm_crosscheck(sample, "c16")
    ctx.count("vm_compute_crosscheck", len(sample))
    if a != b:
        ctx.fail("extraction-vs-vm_compute", "extracted runner and vm_compute disagree", {"requests": str(sample)[:800]},
                 str(b)[:500], str(a)[:500])


def handle_params_stream(ctx, n):
    from perceval.runtime import RemoteJob
    rng = ctx.rng
    cases = []
    for _ in range(n):
        names = rng.shuffle(range(5))[:rng.below(3)]
        def rdict():
            return [[k, ([] if rng.chance(1, 2) else [rng.rint(1, 99)])] for k in rng.shuffle(range(5))[:rng.below(3)]]
        cmd, mp = rdict(), rdict()
        args = [([rng.rint(1, 99)] if not rng.chance(1, 8) else []) for _ in range(rng.below(4))]
        kw = rdict()
        cases.append([names, cmd, mp, args, kw])
    outs = ctx.model.run([(1601, c) for c in cases])
    for c, mo in zip(cases, outs):
        names, cmd, mp, args, kw = c
        case = {"names": [KW_NAMES[x] for x in names], "command": {KW_NAMES[k]: opt(v) for k, v in cmd},
                "mapping": {KW_NAMES[k]: opt(v) for k, v in mp}, "args": [opt(a) for a in args],
                "kwargs": {KW_NAMES[k]: opt(v) for k, v in kw}}
        ctx.case(["hp", c], bool(args or kw), case)
        ctx.count("handle_params." + ("accepted" if mo[0] == 1 else "rejected"))
        job = RemoteJob({"payload": {}}, None, "n", command_param_names=list(case["names"]),
                        delta_parameters={"command": dict(case["command"]), "mapping": dict(case["mapping"])})
        try:
            job._handle_params(tuple(case["args"]), dict(case["kwargs"]))
            got = [1, list(job._delta_parameters["command"].items()), list(job._delta_parameters["mapping"].items())]
        except Exception as e:
            got = classify(e)
        accepted_real = isinstance(got[1], list)
        if mo[0] == 1:
            exp = [1, [(KW_NAMES[k], opt(v)) for k, v in mo[1]], [(KW_NAMES[k], opt(v)) for k, v in mo[2]]]
            if got != exp:
                ctx.fail("handle_params-routing", "arguments routed differently from the model", case, str(exp), str(got))
        else:
            exp = [1, mo[1], mo[2]]
            if accepted_real or got[:3] != exp:
                ctx.fail("handle_params-rejection", "argument rejection differs from the model", case, str(exp), str(got))
        if mo[0] == 1 and accepted_real:
            # statement-level: every keyword landed in the command or in the mapping
            for k, v in case["kwargs"].items():
                d1, d2 = dict(got[1]), dict(got[2])
                if not ((k in d1 and d1[k] == v) or (k in d2 and d2[k] == v)):
                    ctx.fail("handle_params-keyword-lost", "an accepted keyword argument is in neither dict", case, v, str(got))


def replay(ctx, case):
    silence()
    print(json.dumps(case, indent=1, default=str)[:4000])
    tree = (case.get("case") or {}).get("tree")
    if tree:
        mout = ctx.model.run([(1600, tree)])[0]
        real = run_real(tree, mout[4])
        for e in check_scenario(ctx, tree, mout, real):
            print("REPLAY:", e[0], "|", e[1], "| expected:", str(e[2])[:300], "| observed:", str(e[3])[:300])
