"""C08 — detector models return the click statistics of their physical description."""
from __future__ import annotations
import math
from fractions import Fraction

from ..common import frac_of_float, un_q

LEVEL = "proof"
RULE = ("(1) exhaustive grid: every interleaved detector with w <= 8 wires, every maximum reading 1..w (and the "
        "default), every photon number n <= 10: Detector.detect and Detector._cond_probability against the extracted "
        "model AND against an independent exact evaluation of C(w,k)S(n,k)k!/w^n folded at the maximum, each detector "
        "queried in a shuffled order and twice (memo caches); BSLayeredPPNR with L <= 3 layers, reflectivities "
        "{1/2, 3/10, 1/4, 2/3, 0, 1}, n <= 10 (n <= 7 for L = 3 off 1/2) against the model, the white-box leaf "
        "intensities of create_circuit, and for r = 1/2 against the 2^L-wire interleaved detector; constructors, "
        "types and max_detections incl. refused arguments. (2) random detector lists for get_detection_type / "
        "check_heralds_detectors. (3) simulate_detectors on random per-mode mixtures of none / PNR / threshold / "
        "interleaved / BS-tree detectors (uniform lists forced 1 time in 4) over random input distributions "
        "(1-5 states, <= 4 modes, <= 4 photons per mode) with every filter value None, 0..n_max+1, plus a malformed "
        "stream (un-normalised or empty input, wrong list length). (4) Processor('SLOS').probs() with detectors and "
        "every filter 0..n against the model applied to the same processor's detector-free distribution. "
        "Non-trivial: a detector that is not perfect receives >= 2 photons (grid: n >= 2 and w >= 2); distinct by "
        "exact detector parameters, input states, exact probabilities and filter.")
TRUSTED = ["model: coq/Model/Detector.v, DetectorX.v (hand-written; tied by this correspondence stream)",
           "the beam-splitter tree is modelled by its leaf intensities and the multinomial law of independent photons "
           "(no interference on a tree fed through one input); SLOS itself is not modelled here (C02) — the model's leaf "
           "intensities are compared with |U[j,0]|^2 of create_circuit() and its click law with BSLayeredPPNR.detect"]
ASSUMPTIONS = ["floating-point rounding not modelled; comparison tolerance 1e-9",
               "ProbabilityDistribution.add drops probabilities <= 1e-16 (global min_p): below the tolerance on the "
               "generated inputs (input probabilities >= 1/100)",
               "Processor.probs passes prob_threshold = 1e-6 x its largest probability to simulate_detectors, which trims "
               "small products; the model has no trimming, so the Processor stream compares with tolerance 1e-5",
               "max_detections >= 1 (Detector(w, 0) is accepted by the constructor and reads |1> for one photon; the "
               "model follows the code there, the theorems assume a maximum of at least one)"]
EXPLANATION = ("Detector.detect / BSLayeredPPNR.detect / simulate_detectors / Processor.probs are run on /repo and "
               "compared with the extracted Coq model whose click law, fold, product kernel and mass bookkeeping are "
               "proved for all wire counts, maxima, photon numbers, detector lists and input distributions.")

TOL = 1e-9
RS = [Fraction(1, 2), Fraction(3, 10), Fraction(1, 4), Fraction(2, 3), Fraction(0), Fraction(1)]


# ------------------------------------------------------------------ helpers
def stirling2(n, k):
    tab = [[0] * (k + 2) for _ in range(n + 1)]
    tab[0][0] = 1
    for i in range(1, n + 1):
        for j in range(1, k + 1):
            tab[i][j] = j * tab[i - 1][j] + tab[i - 1][j - 1]
    return tab[n][k]


def closed(w, k, n):
    return Fraction(math.comb(w, k) * stirling2(n, k) * math.factorial(k), w ** n)


def folded(w, mx, n):
    """independent specification: reading = min(clicks, mx)"""
    out = {}
    for k in range(0, n + 1):
        p = closed(w, k, n)
        if p:
            j = min(k, mx)
            out[j] = out.get(j, 0) + p
    return out


def enc_det(spec):
    kind = spec[0]
    if kind == "none":
        return []
    if kind == "pnr":
        return [0]
    if kind == "thr":
        return [1, 1, 1]
    if kind == "ppnr":
        w, mx = spec[1], spec[2]
        return [1, w, w if mx is None else min(mx, w)]
    return [2, spec[1], spec[2]]


def build_det(spec):
    from perceval.components import Detector, BSLayeredPPNR
    kind = spec[0]
    if kind == "none":
        return None
    if kind == "pnr":
        return Detector.pnr()
    if kind == "thr":
        return Detector.threshold()
    if kind == "ppnr":
        return Detector.ppnr(spec[1], spec[2])
    return BSLayeredPPNR(spec[1], float(spec[2]))


def one_mode(res):
    """BasicState | BSDistribution of one-mode states -> {reading: prob}"""
    from perceval.utils import BasicState
    if isinstance(res, BasicState):
        return {int(res[0]): 1.0}
    return {int(s[0]): float(p) for s, p in res.items()}


def bsd_dict(res):
    out = {}
    for s, p in res.items():
        out[tuple(int(x) for x in s)] = out.get(tuple(int(x) for x in s), 0.0) + float(p)
    return out


def model_dist1(out):
    d = {}
    for k, q in out:
        d[k] = d.get(k, 0) + un_q(q)
    return d


def model_bsd(out):
    d = {}
    for s, q in out:
        d[tuple(s)] = d.get(tuple(s), 0) + un_q(q)
    return d


def maps_close(a, b, tol=TOL):
    for k in set(a) | set(b):
        if abs(float(a.get(k, 0)) - float(b.get(k, 0))) > tol:
            return False
    return True


def show(d):
    return {str(k): float(v) for k, v in sorted(d.items()) if v}


def rand_det(rng, small=False):
    k = rng.below(10)
    if k == 0:
        return ("none",)
    if k == 1:
        return ("pnr",)
    if k in (2, 3):
        return ("thr",)
    if k in (4, 5, 6):
        w = rng.rint(2, 5)
        mx = None if rng.chance(1, 3) else rng.rint(1, w)
        return ("ppnr", w, mx)
    L = 1 if (small or rng.chance(2, 3)) else 2
    return ("tree", L, rng.choice(RS))


def imperfect(spec):
    return spec[0] in ("thr", "ppnr", "tree")


# ------------------------------------------------------------------ stream 1: grid
def run_grid(ctx):
    from perceval.components import Detector, BSLayeredPPNR, DetectionType
    rng = ctx.rng
    WMAX, NMAX = 8, 10
    # constructors (incl. refused arguments)
    cons = []
    for w in [None] + list(range(0, WMAX + 1)):
        for md in [None] + list(range(0, WMAX + 2)):
            cons.append((w, md))
    outs = ctx.model.run([(802, [[] if w is None else w, [] if md is None else md]) for w, md in cons])
    tnames = {0: DetectionType.PNR, 1: DetectionType.Threshold, 2: DetectionType.PPNR, 3: DetectionType.Mixed}
    for (w, md), out in zip(cons, outs):
        case = {"call": "Detector(n_wires, max_detections)", "n_wires": w, "max_detections": md}
        ctx.case(["cons", w, md], w is not None and w >= 2, None)
        ctx.count("constructor")
        try:
            d = Detector(w, md)
            got = (d.type, d.max_detections)
        except AssertionError:
            got = None
        exp = None if out == [] else (tnames[out[1]], None if out[2] == [] else out[2])
        if got != exp:
            ctx.fail("constructor", "Detector constructor: type / max_detections / refusal differ from the model", case,
                     str(exp), str(got))
    # the click law and the fold, exhaustively
    cells = []
    for w in range(1, WMAX + 1):
        for mx in [None] + list(range(1, w + 1)):
            cells.append((w, mx))
    reqs = []
    for w, mx in cells:
        for n in range(0, NMAX + 1):
            reqs.append((801, [enc_det(("ppnr", w, mx)), n]))
    outs = ctx.model.run(reqs)
    it = iter(outs)
    n_cells = 0
    for w, mx in cells:
        det = Detector.ppnr(w, mx)
        exp_model = {n: model_dist1(next(it)) for n in range(0, NMAX + 1)}
        order = rng.shuffle(list(range(0, NMAX + 1)) * 2)
        for n in order:
            case = {"call": "Detector.ppnr(w, max).detect(n)", "w": w, "max_detections": mx, "n": n}
            ctx.case(["grid", w, mx, n], n >= 2 and w >= 2, case if (w, mx, n) == (5, 2, 3) else None)
            ctx.count("grid.detect")
            n_cells += 1
            try:
                got = one_mode(det.detect(n))
            except Exception as e:
                ctx.fail("detect-exception", f"Detector.detect raised {type(e).__name__}: {e}", case)
                continue
            spec = folded(w, w if mx is None else mx, n)
            if not maps_close(got, spec):
                ctx.fail("detect-closed-form", "Detector.detect differs from C(w,k)S(n,k)k!/w^n folded at the maximum",
                         case, show(spec), show(got))
            elif not maps_close(got, exp_model[n]):
                ctx.fail("detect-model", "Detector.detect differs from the model", case, show(exp_model[n]), show(got))
            if not maps_close(spec, exp_model[n], 0):
                ctx.fail("model-vs-closed-form", "model and independent closed form disagree (harness or model error)",
                         case, show(spec), show(exp_model[n]))
    # the recurrence itself
    reqs, keys = [], []
    for w in range(1, WMAX + 1):
        for n in range(0, NMAX + 1):
            for k in range(0, min(w, n) + 2):
                reqs.append((800, [w, k, n]))
                keys.append((w, k, n))
    outs = ctx.model.run(reqs)
    dets = {w: Detector(w) for w in range(1, WMAX + 1)}
    for (w, k, n), out in zip(keys, outs):
        case = {"call": "Detector(w)._cond_probability(det, nph)", "w": w, "det": k, "nph": n}
        ctx.case(["cond", w, k, n], n >= 2 and w >= 2 and 1 <= k <= n, None)
        ctx.count("grid.cond")
        got = float(dets[w]._cond_probability(k, n))
        exp = un_q(out)
        if exp != closed(w, k, n):
            ctx.fail("model-vs-closed-form", "model recurrence and closed form disagree", case, str(closed(w, k, n)), str(exp))
        if abs(got - float(exp)) > TOL:
            ctx.fail("cond-probability", "_cond_probability differs from C(w,k)S(n,k)k!/w^n", case, float(exp), got)
    ctx.streams["grid: interleaved w<=8, max<=w, n<=10 (exhaustive)"] = n_cells + len(keys)

    # beam-splitter trees
    tree_cells = []
    for L in (1, 2, 3):
        for r in RS:
            nmax = NMAX if (L < 3 or r == Fraction(1, 2)) else 7
            tree_cells.append((L, r, nmax))
    reqs = []
    for L, r, nmax in tree_cells:
        reqs.append((803, [L, r]))
        for n in range(0, nmax + 1):
            reqs.append((801, [[2, L, r], n]))
            if r == Fraction(1, 2):
                reqs.append((801, [[1, 2 ** L, 2 ** L], n]))
    outs = ctx.model.run(reqs)
    it = iter(outs)
    n_tree = 0
    for L, r, nmax in tree_cells:
        det = BSLayeredPPNR(L, float(r))
        leaves = [un_q(q) for q in next(it)]
        case = {"call": "BSLayeredPPNR(L, r).create_circuit()", "L": L, "r": str(r)}
        try:
            u = det.create_circuit().compute_unitary()
            got_leaves = sorted(abs(complex(u[j, 0])) ** 2 for j in range(2 ** L))
            if det.max_detections != 2 ** L or det.type != DetectionType.PPNR:
                ctx.fail("tree-attributes", "BSLayeredPPNR type / max_detections", case, (2 ** L, "PPNR"),
                         (det.max_detections, str(det.type)))
            if any(abs(a - float(b)) > TOL for a, b in zip(got_leaves, sorted(leaves))):
                ctx.fail("tree-leaves", "leaf intensities |U[j,0]|^2 of the tree circuit differ from the model", case,
                         [float(x) for x in sorted(leaves)], got_leaves)
        except Exception as e:
            ctx.fail("tree-exception", f"create_circuit raised {type(e).__name__}: {e}", case)
        exp = {}
        uni = {}
        for n in range(0, nmax + 1):
            exp[n] = model_dist1(next(it))
            if r == Fraction(1, 2):
                uni[n] = model_dist1(next(it))
        for n in rng.shuffle(list(range(0, nmax + 1)) * 2):
            case = {"call": "BSLayeredPPNR(L, r).detect(n)", "L": L, "r": str(r), "n": n}
            ctx.case(["tree", L, str(r), n], n >= 2, case if (L, r, n) == (2, Fraction(3, 10), 3) else None)
            ctx.count("grid.tree")
            n_tree += 1
            try:
                got = one_mode(det.detect(n))
            except Exception as e:
                ctx.fail("tree-exception", f"BSLayeredPPNR.detect raised {type(e).__name__}: {e}", case)
                continue
            if not maps_close(got, exp[n]):
                ctx.fail("tree-detect", "BSLayeredPPNR.detect differs from the multinomial click law of its leaves", case,
                         show(exp[n]), show(got))
            if r == Fraction(1, 2):
                if not maps_close(exp[n], uni[n], 0):
                    ctx.fail("model-tree-vs-interleaved", "model: tree(1/2) differs from 2^L wires (contradicts the theorem)",
                             case, show(uni[n]), show(exp[n]))
                if not maps_close(got, folded(2 ** L, 2 ** L, n)):
                    ctx.fail("tree-uniform", "BSLayeredPPNR(L, 1/2).detect differs from the 2^L-wire click law", case,
                             show(folded(2 ** L, 2 ** L, n)), show(got))
    ctx.streams["grid: BS trees L<=3 x 6 reflectivities (exhaustive)"] = n_tree

    # malformed: maximum 0 (accepted by the constructor) — the model follows the code; no property claim
    reqs = [(801, [[1, w, 0], n]) for w in (2, 3) for n in range(0, 5)]
    outs = ctx.model.run(reqs)
    i = 0
    for w in (2, 3):
        det = Detector.ppnr(w, 0)
        for n in range(0, 5):
            case = {"call": "Detector.ppnr(w, 0).detect(n)", "w": w, "n": n}
            ctx.case(["max0", w, n], False, None)
            ctx.count("malformed.max0")
            got = one_mode(det.detect(n))
            if not maps_close(got, model_dist1(outs[i])):
                ctx.fail("detect-max0-model", "Detector(w, 0).detect differs from the model of the code", case,
                         show(model_dist1(outs[i])), show(got))
            i += 1


# ------------------------------------------------------------------ stream 2: detector lists
def run_lists(ctx):
    from perceval.components import get_detection_type, check_heralds_detectors, DetectionType
    rng = ctx.rng
    n = ctx.n(300, 3000)
    tnames = {0: DetectionType.PNR, 1: DetectionType.Threshold, 2: DetectionType.PPNR, 3: DetectionType.Mixed}
    cases = []
    for i in range(n):
        m = rng.rint(0, 5)
        if rng.chance(1, 3) and m > 0:
            base = rand_det(rng, True)
            specs = [base if rng.chance(5, 6) else rand_det(rng, True) for _ in range(m)]
        else:
            specs = [rand_det(rng, True) for _ in range(m)]
        heralds = {}
        for k in range(m):
            if rng.chance(1, 3):
                heralds[k] = rng.rint(0, 5)
        cases.append((specs, heralds))
    o1 = ctx.model.run([(804, [enc_det(s) for s in specs]) for specs, _ in cases])
    o2 = ctx.model.run([(805, [[[k, v] for k, v in sorted(h.items())], [enc_det(s) for s in specs]]) for specs, h in cases])
    for (specs, heralds), a, b in zip(cases, o1, o2):
        dets = [build_det(s) for s in specs]
        case = {"detectors": [list(map(str, s)) for s in specs], "heralds": heralds}
        kinds = {s[0] for s in specs}
        ctx.case(["lists", [list(map(str, s)) for s in specs], sorted(heralds.items())], len(kinds) >= 2, None)
        ctx.count("lists")
        got = get_detection_type(dets)
        if got != tnames[a]:
            ctx.fail("detection-type", "get_detection_type differs from the model", case, str(tnames[a]), str(got))
        got_h = check_heralds_detectors(heralds, dets)
        if bool(got_h) != bool(b):
            ctx.fail("check-heralds", "check_heralds_detectors differs from the model", case, bool(b), got_h)
    ctx.streams["detector lists (type, heralds)"] = n


# ------------------------------------------------------------------ stream 3: simulate_detectors
def gen_dist(rng, m, nstates, normalised=True):
    states = []
    seen = set()
    for _ in range(nstates * 3):
        s = tuple(rng.choice([0, 0, 1, 1, 2, 2, 3, 4]) for _ in range(m))
        if sum(s) <= 7 and s not in seen:
            seen.add(s)
            states.append(s)
        if len(states) == nstates:
            break
    if not states:
        states = [tuple([2] + [0] * (m - 1))]
    ws = [rng.rint(1, 20) for _ in states]
    tot = sum(ws) if normalised else rng.choice([sum(ws) * 2, sum(ws) + 7, max(1, sum(ws) - 3)])
    return [(s, Fraction(w, tot)) for s, w in zip(states, ws)]


def run_sim_case(specs, dets, dist, minp):
    """real simulate_detectors on float inputs -> (dict, perf) or ('exception', text)"""
    from perceval.simulators._simulate_detectors import simulate_detectors
    from perceval.utils import BSDistribution, BasicState
    bsd = BSDistribution()
    for s, p in dist:
        bsd[BasicState(list(s))] = float(p)
    res, perf = simulate_detectors(bsd, dets, minp)
    return bsd_dict(res), float(perf)


def sim_request(specs, dist, minp):
    return (806, [[[list(s), p] for s, p in dist], [enc_det(x) for x in specs], [] if minp is None else minp])


def judge_sim(ctx, specs, dist, minp, out, dets=None):
    """returns a signature (str) or None; compares the code with the model and with the statement's bookkeeping"""
    exp = model_bsd(out[0])
    perf = un_q(out[1])
    dets = dets if dets is not None else [build_det(s) for s in specs]
    try:
        got, gperf = run_sim_case(specs, dets, dist, minp)
    except Exception as e:
        return "simulate-exception", f"{type(e).__name__}: {e}", None, None
    if not maps_close(got, exp):
        return "simulate-distribution", "result distribution differs from the model", show(exp), show(got)
    if abs(gperf - float(perf)) > TOL:
        return "simulate-perf", "physical performance differs from the model", float(perf), gperf
    # the statement itself, on the real output: outcomes below the filter are accounted for in the performance
    if minp is not None and abs(sum(float(p) for _, p in dist) - 1) < 1e-12:
        below = [s for s, p in got.items() if sum(s) < minp and p > TOL]
        if below:
            allpnr = all(s[0] in ("none", "pnr") for s in specs)
            sig = "simulate-pnr-shortcut-ignores-filter" if allpnr else "simulate-returns-filtered-state"
            return sig, "a state with fewer photons than min_photons is returned and the performance does not account " \
                        "for it", f"no state below {minp} photons", show({s: got[s] for s in below})
    return None


def shrink_sim(ctx, specs, dist, minp, sig):
    """delete input states / replace detectors by None while the same signature persists"""
    def still(sp, di):
        if not di:
            return False
        out = ctx.model.run([sim_request(sp, di, minp)])[0]
        j = judge_sim(ctx, sp, di, minp, out)
        return j is not None and j[0] == sig
    changed = True
    while changed:
        changed = False
        for i in range(len(dist)):
            cand = dist[:i] + dist[i + 1:]
            tot = sum(p for _, p in cand)
            if cand and tot:
                cand = [(s, p / tot) for s, p in cand]
                if still(specs, cand):
                    dist, changed = cand, True
                    break
        for i in range(len(specs)):
            if specs[i][0] != "none":
                cand = specs[:i] + [("none",)] + specs[i + 1:]
                if still(cand, dist):
                    specs, changed = cand, True
                    break
    return specs, dist


# witnesses of defects repaired in /repo: (detectors, dist, min_photons); they must pass now (regression guards)
CORPUS = [
    # d3d39a64: the all-PNR shortcut ignored min_photons
    ([("pnr",), ("none",)], [((1, 0), Fraction(1, 2)), ((0, 0), Fraction(1, 2))], 1),
    ([("none",), ("none",), ("none",), ("none",)], [((0, 0, 1, 1), Fraction(1))], 3),
    ([("pnr",), ("pnr",)], [((2, 0), Fraction(1, 4)), ((1, 0), Fraction(1, 4)), ((0, 0), Fraction(1, 2))], 2),
]


def run_simulate(ctx):
    rng = ctx.rng
    n_lists = ctx.n(60, 600)
    work = []
    for ci, (specs, dist, minp) in enumerate(CORPUS):
        work.append((list(specs), list(dist), minp, False, -1 - ci))
        ctx.count("simulate.corpus-regression")
    for i in range(n_lists):
        m = rng.rint(1, 4)
        mode = rng.below(8)
        if mode == 0:
            specs = [rng.choice([("thr",), ("ppnr", 1, rng.choice([None, 1]))]) for _ in range(m)]   # all threshold
        elif mode == 1:
            specs = [rng.choice([("none",), ("pnr",)]) for _ in range(m)]                             # all PNR
        else:
            specs = [rand_det(rng) for _ in range(m)]
        malformed = rng.chance(1, 12)
        dist = gen_dist(rng, m, rng.rint(1, 5), normalised=not malformed)
        nmax = max(sum(s) for s, _ in dist)
        for minp in [None] + list(range(0, nmax + 2)):
            work.append((specs, dist, minp, malformed, i))
    outs = ctx.model.run([sim_request(specs, dist, minp) for specs, dist, minp, _, _ in work])
    det_cache = {}
    reported = set()
    for (specs, dist, minp, malformed, i), out in zip(work, outs):
        if i not in det_cache:
            det_cache = {i: [build_det(s) for s in specs]}      # same detector objects for every filter value (caches)
        dets = det_cache[i]
        nontriv = any(imperfect(sp) and any(s[k] >= 2 and p > 0 for s, p in dist) for k, sp in enumerate(specs))
        case = {"call": "simulate_detectors(dist, detectors, min_photons)",
                "detectors": [list(map(str, s)) for s in specs],
                "dist": [[list(s), str(p)] for s, p in dist], "min_photons": minp}
        ctx.case(["sim", case["detectors"], case["dist"], minp], nontriv and not malformed,
                 case if (nontriv and not malformed and minp is not None and 0 < un_q(out[1]) < 1) else None)
        kinds = {s[0] for s in specs}
        ctx.count("simulate." + ("malformed-unnormalised" if malformed else
                                 "all-threshold" if kinds <= {"thr", "ppnr"} and all(s[0] == "thr" or s[1] == 1 for s in specs)
                                 else "all-pnr" if kinds <= {"none", "pnr"} else "mixed"))
        perf = un_q(out[1])
        if not malformed and perf < 1:
            ctx.count("simulate.filter-drops-something")
        if not malformed and un_q(out[2]) != 1:
            ctx.fail("model-mass", "model: mass before filtering is not 1 (contradicts the theorem)", case, 1, str(un_q(out[2])))
        j = judge_sim(ctx, specs, dist, minp, out, dets)
        if j is not None:
            sig, what, e, g = j
            if (sig, i) in reported:
                continue
            reported.add((sig, i))
            s2, d2 = shrink_sim(ctx, list(specs), list(dist), minp, sig)
            out2 = ctx.model.run([sim_request(s2, d2, minp)])[0]
            j2 = judge_sim(ctx, s2, d2, minp, out2) or j
            case2 = {"call": case["call"], "detectors": [list(map(str, s)) for s in s2],
                     "dist": [[list(s), str(p)] for s, p in d2], "min_photons": minp}
            ctx.fail(sig, "simulate_detectors: " + j2[1], case2, j2[2], j2[3])
    ctx.streams["simulate_detectors (every filter value)"] = len(work)

    # malformed: empty input and wrong list length
    from perceval.simulators._simulate_detectors import simulate_detectors
    from perceval.utils import BSDistribution, BasicState
    from perceval.components import Detector
    ctx.count("malformed.empty-or-mismatch", 2)
    try:
        res, perf = simulate_detectors(BSDistribution(), [], 1)
        if len(res) or perf != 1:
            ctx.fail("simulate-empty", "empty input must come back unchanged with performance 1 (model)", {}, "({}, 1)", str((res, perf)))
    except Exception as e:
        ctx.notes.append(f"simulate_detectors(empty BSDistribution, [], 1) raised {type(e).__name__}: {e}")
    try:
        simulate_detectors(BSDistribution(BasicState([1, 0])), [Detector.threshold()], None)
        ctx.fail("simulate-length-mismatch", "a detector list of the wrong length is accepted", {}, "AssertionError", "accepted")
    except AssertionError:
        pass
    ctx.streams["simulate_detectors malformed"] = 2

    # DESIGN section 9 row 14 (belongs to C09): the sampling path with a list mixing None and real detectors
    try:
        from perceval.simulators._simulate_detectors import simulate_detectors_sample
        simulate_detectors_sample(BasicState([2, 2, 1]), [build_det(("tree", 1, Fraction(1, 2))), None, Detector.threshold()])
        ctx.notes.append("C09 row 14: simulate_detectors_sample with a None entry in a mixed list did NOT raise")
    except AttributeError as e:
        ctx.notes.append(f"C09 row 14 reproduces: simulate_detectors_sample with a None entry in a mixed list raises AttributeError ({e})")


# ------------------------------------------------------------------ stream 4: Processor.probs with detectors
def run_processor(ctx):
    import perceval as pcvl
    from perceval.components import BS, PS
    rng = ctx.rng
    n_proc = ctx.n(25, 250)
    PTOL = 1e-5
    work = []
    for i in range(n_proc):
        m = rng.rint(2, 4)
        ops = []
        for _ in range(rng.rint(2, 6)):
            ops.append((rng.below(m - 1), "BS", rng.rint(1, 9)))        # reflectivity in tenths
            ops.append((rng.below(m), "PS", rng.rint(0, 62)))           # phase in tenths of a radian
        circ = pcvl.Circuit(m)
        for k, kind, v in ops:
            circ.add(k, BS(BS.r_to_theta(v / 10)) if kind == "BS" else PS(v / 10))
        inp = [0] * m
        for _ in range(rng.rint(2, 3)):
            inp[rng.below(m)] += 1
        specs = [rand_det(rng, True) for _ in range(m)]
        if not any(imperfect(s) for s in specs):
            specs[rng.below(m)] = rng.choice([("thr",), ("ppnr", 3, 2), ("tree", 1, Fraction(1, 2))])

        def mk(with_dets, filt, circ=circ, specs=specs, inp=inp):
            p = pcvl.Processor("SLOS", circ.copy())
            if with_dets:
                for k, s in enumerate(specs):
                    d = build_det(s)
                    if d is not None:
                        p.add(k, d)
            p.min_detected_photons_filter(filt)
            p.with_input(pcvl.BasicState(inp))
            return p
        try:
            base = bsd_dict(mk(False, 0).probs()["results"])
        except Exception as e:
            ctx.fail("processor-exception", f"detector-free probs() raised {type(e).__name__}: {e}", {"input": inp})
            continue
        dist = [(s, frac_of_float(p)) for s, p in sorted(base.items())]
        for filt in range(0, sum(inp) + 1):
            work.append((specs, inp, dist, filt, mk, ops))
    outs = ctx.model.run([sim_request(specs, dist, filt) for specs, _, dist, filt, _, _ in work])
    for (specs, inp, dist, filt, mk, ops), out in zip(work, outs):
        case = {"call": "Processor('SLOS', circuit).probs() with detectors", "input": inp,
                "detectors": [list(map(str, s)) for s in specs], "min_detected_photons_filter": filt,
                "circuit": [list(o) for o in ops]}
        nontriv = any(imperfect(sp) and any(s[k] >= 2 for s, _ in dist) for k, sp in enumerate(specs))
        ctx.case(["proc", case["circuit"], inp, case["detectors"], filt], nontriv, case)
        ctx.count("processor")
        exp = model_bsd(out[0])
        perf = float(un_q(out[1]))
        try:
            r = mk(True, filt).probs()
            got, gperf = bsd_dict(r["results"]), float(r["physical_perf"])
        except Exception as e:
            ctx.fail("processor-exception", f"probs() with detectors raised {type(e).__name__}: {e}", case)
            continue
        if not maps_close(got, exp, PTOL):
            ctx.fail("processor-probs", "Processor.probs() with detectors differs from the kernels applied to its own "
                     "detector-free distribution", case, show(exp), show(got))
        elif abs(gperf - perf) > PTOL:
            ctx.fail("processor-perf", "Processor.probs() physical performance differs from the un-normalised kept mass",
                     case, perf, gperf)
    ctx.streams["Processor.probs with detectors (every filter 0..n)"] = len(work)


def quiet():
    """the user-channel warnings (null distribution, incompatible heralds) are expected outcomes here"""
    try:
        from perceval.utils.logging import get_logger, channel, level
        get_logger().set_level(level.err, channel.user)
    except Exception:
        pass


def run(ctx):
    quiet()
    run_grid(ctx)
    ctx.log(f"grid done ({ctx.evaluations} evaluations)")
    run_lists(ctx)
    run_simulate(ctx)
    ctx.log(f"simulate done ({ctx.evaluations} evaluations)")
    run_processor(ctx)
    ctx.exhaustive = True   # stream 1 enumerates its finite grid completely; streams 2-4 are random samples
    ctx.notes.append("exhaustive refers to the grid stream (w <= 8, every maximum, n <= 10; trees L <= 3); "
                     "the list, simulate_detectors and Processor streams are random samples")
    # extraction cross-check
    sample = [(801, [[1, 5, 2], 3]), (801, [[2, 2, Fraction(3, 10)], 3]), (800, [4, 2, 5]),
              (806, [[[[2, 0, 1], Fraction(1, 2)], [[0, 0, 3], Fraction(1, 2)]], [[2, 1, Fraction(1, 2)], [], [1, 1, 1]], 2]),
              (804, [[1, 1, 1], [0], []]), (807, [5, 2, 3])]
    a = ctx.model.run(sample)
    b = ctx.model.vm_crosscheck(sample, "c08")
    ctx.count("vm_compute_crosscheck", len(sample))
    if a != b:
        ctx.fail("extraction-vs-vm_compute", "extracted runner and vm_compute disagree", {"requests": str(sample)}, str(b), str(a))


def replay(ctx, case):
    """re-evaluates one recorded simulate_detectors / detect case against the model"""
    c = case.get("case", case)
    print(c)
    if "dist" in c and "detectors" in c and "input" not in c:
        def spec(s):
            if s[0] == "ppnr":
                return ("ppnr", int(s[1]), None if s[2] == "None" else int(s[2]))
            if s[0] == "tree":
                return ("tree", int(s[1]), Fraction(s[2]))
            return (s[0],)
        specs = [spec(s) for s in c["detectors"]]
        dist = [(tuple(s), Fraction(p)) for s, p in c["dist"]]
        out = ctx.model.run([sim_request(specs, dist, c["min_photons"])])[0]
        print("model:", show(model_bsd(out[0])), float(un_q(out[1])))
        print("code :", run_sim_case(specs, [build_det(s) for s in specs], dist, c["min_photons"]))
        print("verdict:", judge_sim(ctx, specs, dist, c["min_photons"], out))
    elif "w" in c and "n" in c:
        from perceval.components import Detector
        print("code :", one_mode(Detector.ppnr(c["w"], c.get("max_detections")).detect(c["n"])))
        print("spec :", show(folded(c["w"], c.get("max_detections") or c["w"], c["n"])))
