"""C04 — heralds, post-selection and photon filters condition the output exactly."""
from __future__ import annotations
import json
from fractions import Fraction

from ..common import QI, un_q, frac_of_float
from .. import gen
from .c02 import Circ, rand_circ

LEVEL = "proof"
RULE = ("processors / simulators over random circuits (C02 vocabulary, m <= 5) with heralds at ANY positions (values "
        "0/1), random post-selection trees over ==,!=,<,>,<=,>= with &,|,^,!, filters 0..n+1, inputs whose tag groups "
        "may be poorer than the heralds need, noise on/off (brightness, g2, indistinguishability, transmittance), "
        "threshold detectors or none, heralds kept or discarded, engines SLOS and Naive. Compared: results, "
        "physical_perf, logical_perf of Processor.probs(precision=0) and Simulator.probs_svd against the model's "
        "`condition` applied to the brute-force unmasked specification distribution. Non-trivial: a herald not on the "
        "last modes, or filter < n, or a group poorer than the heralds; distinct by full configuration.")
TRUSTED = ["model: coq/Model/Select.v, SelectX.v; PostSelect and FSMask are native (modelled, tied here)",
           "the input mixture of a noisy processor is read from the implementation (source model = C06) and fed to both sides"]
ASSUMPTIONS = ["exact stream at precision 0; tolerance 1e-9 on probabilities and performances",
               "tag groups are obtained with the implementation's own separate_state (grouping is C03's subject)"]

OPS = ["==", "!=", "<", ">", "<=", ">="]


def rand_ps(rng, m, depth=0):
    """(tree for the model, string for PostSelect)"""
    k = rng.below(10)
    if depth >= 2 or k < 5:
        modes = sorted(set(rng.below(m) for _ in range(rng.rint(1, 2))))
        op = rng.below(6)
        val = rng.rint(0, 2)
        return [1, modes, op, val], f"{modes} {OPS[op]} {val}"
    if k == 5:
        a, sa = rand_ps(rng, m, depth + 1)
        return [5, a], f"!({sa})"
    a, sa = rand_ps(rng, m, depth + 1)
    b, sb = rand_ps(rng, m, depth + 1)
    code, sym = {6: (2, "&"), 7: (3, "|"), 8: (4, "^"), 9: (2, "&")}[k]
    return [code, a, b], f"({sa}) {sym} ({sb})"


def mixture_of_svd(svd):
    """[(Fraction p, [group states])] from an SVDistribution of single-term annotated states."""
    mix = []
    for sv, p in svd.items():
        assert len(sv) == 1
        bs = sv[0]
        groups = [list(g) for g in bs.separate_state(keep_annotations=False)]
        if not groups:
            groups = [[0] * bs.m]
        mix.append([frac_of_float(float(p)), groups])
    return mix


def compare(ctx, sig, case, res, out, nmodes_out, tol=1e-9):
    phys, logical, dist = float(un_q(out[0])), float(un_q(out[1])), {tuple(e[0]): float(un_q(e[1])) for e in out[2]}
    rp, rl = float(res["physical_perf"]), float(res["logical_perf"])
    rd = {tuple(k): float(v) for k, v in res["results"].items()}
    rel = tol is None
    if rel:
        # default precision: input states under 1e-6 of the most likely state that can pass are dropped
        tol = 1e-9
    if abs(rp - phys) > (tol if not rel else 1e-3 * phys + 1e-12):
        ctx.fail(sig + "-physical_perf", "physical performance differs from P(filter passes)", case, phys, rp)
        return False
    if rel:
        tol = 1e-3
        if phys <= 0:
            return True        # nothing passes the filter: the conditional quantities are undefined
        if logical > 1e-6 and not rd:
            ctx.fail(sig + "-empty", "no result although the retained probability is not negligible", case, logical, rl)
            return False
        if abs(rl - logical) > 1e-3 * logical + 1e-9:
            ctx.fail(sig + "-logical_perf", "logical performance differs by more than the precision allows", case, logical, rl)
            return False
    if not rel and phys > 0 and abs(rl - logical) > tol and not (len(dist) == 0 and len(rd) == 0 and abs(rl) < tol):
        ctx.fail(sig + "-logical_perf", "logical performance differs from P(heralds and post-selection | filter)", case, logical, rl)
        return False
    if not dist and logical <= 1e-12:
        return True     # the selection keeps an event of probability zero: the renormalised distribution is undefined
    keys = set(k for k, v in dist.items() if v > 1e-12) | set(k for k, v in rd.items() if v > 1e-12)
    for k in keys:
        if abs(dist.get(k, 0.0) - rd.get(k, 0.0)) > tol:
            ctx.fail(sig + "-results", "conditioned distribution differs", case, str(sorted(dist.items())), str(sorted(rd.items())))
            return False
    for k in rd:
        if len(k) != nmodes_out:
            ctx.fail(sig + "-modes", "reported state has the wrong number of modes (heralded modes not removed?)", case, nmodes_out, list(k))
            return False
    return True


def run(ctx):
    import perceval as pcvl
    from perceval.utils import PostSelect, NoiseModel
    from perceval.simulators import Simulator
    from perceval.components import Detector
    rng = ctx.rng
    BS_ = pcvl.BasicState
    N = ctx.n(150, 1500)
    cases = []
    for i in range(N):
        r = rng.fork(i)
        m = r.rint(2, 5)
        c = rand_circ(r, m, r.chance(3, 4))
        nh = r.rint(0, min(2, m - 1))
        hmodes = sorted(r.shuffle(range(m))[:nh])
        heralds = {h: r.rint(0, 1) for h in hmodes}
        free = [j for j in range(m) if j not in heralds]
        nin = r.rint(0, min(3, len(free) + 1))
        inp = [0] * len(free)
        for _ in range(nin):
            inp[r.below(len(free))] += 1
        if sum(inp) + sum(heralds.values()) > 4:
            inp = [min(x, 1) for x in inp]
        n_tot = sum(inp) + sum(heralds.values())
        flt = r.rint(0, sum(inp) + 1)
        use_ps = r.chance(1, 2)
        ps_tree, ps_str = rand_ps(r, len(free)) if use_ps else ([0], None)
        noise = None
        if r.chance(1, 2):
            noise = dict(brightness=r.choice([1.0, 0.9, 0.5]), g2=r.choice([0.0, 0.0, 0.05]),
                         indistinguishability=r.choice([1.0, 0.92, 0.75]), transmittance=r.choice([1.0, 0.8]))
            if noise["g2"] > 0 and n_tot > 2:
                noise["g2"] = 0.0
        det = r.choice(["none", "none", "threshold", "mixed", "mixed"])
        if det == "threshold":
            thr_modes = list(range(m))
        elif det == "mixed":       # threshold detectors on a strict subset of the modes, photon-number resolving elsewhere
            thr_modes = sorted(j for j in range(m) if r.chance(1, 2))
            if len(thr_modes) in (0, m):
                thr_modes = [r.below(m)] if m > 1 else []
        else:
            thr_modes = []
        reconf = r.choice([None, None, "clear_ps", "new_ps", "filter"]) if level_ok(r) else None
        level = r.choice(["processor", "processor", "simulator"])
        backend = r.choice(["SLOS", "Naive", "SLAP"])
        prec = 0
        if r.chance(1, 3) and sum(inp) >= 2 and nh >= 1:
            # an engine that restricts its output space (mask) serving a lossy, partly distinguishable source: the input
            # mixture then holds states of several photon numbers and the herald mask is re-derived for each of them
            backend = r.choice(["Naive", "SLAP"])
            heralds[hmodes[0]] = 1
            noise = dict(brightness=r.choice([1.0, 0.9]), g2=0.0, indistinguishability=r.choice([0.92, 0.75]),
                         transmittance=r.choice([0.8, 0.6]))
            flt = r.rint(0, sum(inp) - 1)
            det = "none"
            thr_modes = []
        elif r.chance(1, 6) and sum(inp) >= 2 and n_tot <= 3:
            # default precision with a very weak source and a filter asking for every photon: the states that can pass
            # are far less likely than the ones the filter rejects (trimming must be relative to what can pass)
            # per-photon probability e with e^n between 1e-9 and 1e-6, n the total photon number (under the default relative precision
            # of the all-vacuum state, far above the absolute floor min_p = 1e-16)
            # (herald photons come from the same source: n counts them too — with four photons the passing states would
            #  fall under the absolute floor, which is the documented approximation and not what this case is about)
            e = r.choice([0.0002, 0.0005, 0.001] if n_tot == 2 else [0.002, 0.005, 0.01])
            br = r.choice([0.05, 0.1])
            noise = dict(brightness=br, g2=0.0, indistinguishability=r.choice([1.0, 0.9]), transmittance=e / br)
            flt = sum(inp)
            prec = None          # the library's default
            level = "processor"
            reconf = None
        bump = r.rint(1, 4) if (level == "simulator" and r.chance(2, 3)) else 0
        if bump and nh >= 1 and n_tot >= 2 and prec == 0 and r.chance(5, 6):
            # a herald expecting two photons together with a partly distinguishable input: the input splits into tag
            # groups with fewer photons each, and the engine's restricted output space must still hold every outcome
            noise = dict(brightness=1.0, g2=0.0, indistinguishability=r.choice([0.92, 0.75]), transmittance=r.choice([1.0, 0.8]))
        keep = r.chance(1, 2) if level == "simulator" else False
        if level != "processor":
            reconf = None
        cases.append(dict(circ=c, m=m, heralds=heralds, free=free, inp=inp, flt=flt, ps_tree=ps_tree, ps_str=ps_str,
                          noise=noise, det=det, thr=thr_modes, level=level, backend=backend, keep=keep, reconf=reconf, prec=prec,
                          bump=bump,
                          ps2=rand_ps(r, len(free)), flt2=r.rint(0, sum(inp) + 1)))

    # run the implementation first (it also provides the input mixture), then the model in one batch
    reqs, pend = [], []
    for cs in cases:
        c, m, heralds = cs["circ"], cs["m"], cs["heralds"]
        desc = {"circuit": c.describe(), "heralds": {str(k): v for k, v in heralds.items()}, "input(non-herald modes)": cs["inp"],
                "filter": cs["flt"], "postselect": cs["ps_str"], "noise": cs["noise"], "detectors": cs["det"],
                "level": cs["level"], "backend": cs["backend"], "keep_heralds": cs["keep"]}
        try:
            p = pcvl.Processor(cs["backend"], c.build(), noise=NoiseModel(**cs["noise"]) if cs["noise"] else None)
            for h, v in heralds.items():
                p.add_herald(h, v)
            if cs["ps_str"]:
                # the user writes post-selection on the processor's visible (non-herald) modes? No: on circuit modes.
                pass
            # post-selection expressions are written on circuit mode numbers
            ps_tree_abs, ps_str_abs = remap_ps(cs["ps_tree"], cs["free"]), None
            if cs["ps_str"]:
                ps_str_abs = show_ps(ps_tree_abs)
                p.set_postselection(PostSelect(ps_str_abs))
            for j in cs["thr"]:
                p.add(j, Detector.threshold())
            p.min_detected_photons_filter(cs["flt"])
            p.with_input(BS_(cs["inp"]))
            svd = p.source_distribution
            mix = mixture_of_svd(svd)
            thr = list(cs["thr"])
            desc["threshold detectors on modes"] = thr
            F = cs["flt"] + sum(heralds.values())
            desc["postselect"] = ps_str_abs
            if cs["level"] == "processor":
                res = p.probs(precision=0) if cs["prec"] == 0 else p.probs()
                desc["precision"] = "0" if cs["prec"] == 0 else "default"
                keep = False
            else:
                sim = Simulator(p.backend)
                sim.set_precision(0)
                sim.set_circuit(p.linear_circuit())
                bump_mode = sorted(heralds)[cs["bump"] % len(heralds)] if (cs["bump"] and heralds) else None
                # (a herald expecting more than its detector can report is refused up front by check_heralds_detectors
                #  with the convention physical_perf = 1, logical_perf = 0: C08's matter, not generated here)
                if bump_mode is not None and bump_mode not in cs["thr"]:
                    # at simulator level a herald may expect any count (a processor only declares 0 or 1): expect two
                    # photons on one heralded mode, whatever that mode was fed with
                    heralds = dict(heralds)
                    heralds[bump_mode] = 2
                    desc["heralds"] = {str(k): v for k, v in heralds.items()}
                    F = cs["flt"] + sum(heralds.values())
                    cs["heralds"] = heralds
                sim.set_selection(min_detected_photons_filter=cs["flt"], postselect=p.post_select_fn, heralds=dict(heralds))
                sim.keep_heralds(cs["keep"])
                res = sim.probs_svd(svd, p.detectors if cs["thr"] else None)
                keep = cs["keep"]
            if cond_cost(m, mix) > (12000 if ctx.quick() else 60000):
                ctx.count("generated-but-too-costly-for-the-exact-model")
                continue
            reqs.append((40, [m, c.U, mix, [[h, v] for h, v in heralds.items()], ps_tree_abs, F, keep, thr]))
            pend.append((cs, desc, res, (m if keep else len(cs["free"]))))
            # the same long-lived processor, re-configured after a first query: the answer must follow the new settings
            if cs["reconf"]:
                d2 = dict(desc)
                ps2_abs = ps_tree_abs
                F2 = F
                if cs["reconf"] == "clear_ps":
                    p.clear_postselection()
                    ps2_abs = [0]
                elif cs["reconf"] == "new_ps":
                    ps2_abs = remap_ps(cs["ps2"][0], cs["free"])
                    p.clear_postselection()
                    p.set_postselection(PostSelect(show_ps(ps2_abs)))
                else:
                    p.min_detected_photons_filter(cs["flt2"])
                    F2 = cs["flt2"] + sum(heralds.values())
                d2["then"] = {"clear_ps": "probs(); clear_postselection(); probs()",
                              "new_ps": f"probs(); clear_postselection(); set_postselection({show_ps(ps2_abs) if ps2_abs != [0] else None}); probs()",
                              "filter": f"probs(); min_detected_photons_filter({cs['flt2']}); probs()"}[cs["reconf"]]
                res2 = p.probs(precision=0)
                cs2 = dict(cs)
                cs2["reconf_done"] = cs["reconf"]
                reqs.append((40, [m, c.U, mix, [[h, v] for h, v in heralds.items()], ps2_abs, F2, False, thr]))
                pend.append((cs2, d2, res2, len(cs["free"])))
        except Exception as e:
            ctx.case(["err", str(desc)], False, desc)
            ctx.fail(f"exception-{type(e).__name__}", f"raised {type(e).__name__}: {e}", desc)
    outs = ctx.model.run(reqs)
    for (cs, desc, res, nm), out in zip(pend, outs):
        heralds = cs["heralds"]
        n = sum(cs["inp"])
        poorer = cs["noise"] is not None and sum(heralds.values()) > 0
        nontriv = (any(h != cs["m"] - 1 - i for i, h in enumerate(sorted(heralds, reverse=True))) and len(heralds) > 0) \
            or cs["flt"] < n or poorer
        ctx.case(["cond", gen.qmat_key(cs["circ"].U), str(desc)], nontriv, desc)
        ctx.count("level." + cs["level"])
        ctx.count("heralds.%d" % len(heralds))
        if any(v >= 2 for v in heralds.values()):
            ctx.count("herald-expecting-2")
        ctx.count("noise." + ("on" if cs["noise"] else "off"))
        ctx.count("det." + cs["det"])
        ctx.count("ps." + ("yes" if cs["ps_str"] else "no"))
        if un_q(out[3]) != 1 and not cs["noise"]:
            ctx.fail("model-mass", "unconditioned model distribution does not have mass 1", desc, 1, str(un_q(out[3])))
        sig = "probs" if cs["level"] == "processor" else "probs_svd"
        if cs["thr"]:
            sig += "-threshold" if cs["det"] == "threshold" else "-mixed-detectors"
        if cs.get("reconf_done"):
            sig += "-after-" + cs["reconf_done"]
            ctx.count("reconfigured." + cs["reconf_done"])
        if cs["prec"] is None:
            sig += "-default-precision"
            ctx.count("default-precision")
        compare(ctx, sig, desc, res, out, nm, tol=1e-9 if cs["prec"] == 0 else None)
    ctx.streams["conditioning"] = len(cases)

    # ---------------------------------------------------------------- heralds expecting several photons, tagged inputs
    # (simulator level: a herald may expect any count; the input is one tagged Fock state whose groups hold fewer
    #  photons than the heralds expect, so the engine's restricted output space must be sized from the heralds' SUM)
    nt = ctx.n(40, 400)
    tcases, treqs = [], []
    for i in range(nt):
        r = rng.fork(("tagged-heralds", i))
        m = r.rint(3, 4)
        c = rand_circ(r, m, True)
        ng = r.rint(2, 3)
        groups = []
        for g in range(ng):
            st = [0] * m
            st[r.below(m)] += 1
            if g == 0 and r.chance(1, 4):
                st[r.below(m)] += 1
            groups.append(st)
        ntot = sum(sum(g) for g in groups)
        hm = sorted(r.shuffle(range(m))[:r.rint(1, 2)])
        heralds = {hm[0]: r.rint(2, min(3, ntot))}
        for h in hm[1:]:
            heralds[h] = r.rint(0, 1)
        if sum(heralds.values()) > ntot:
            heralds = {hm[0]: min(2, ntot)}
        flt = r.choice([0, 0, 1])
        backend = r.choice(["SLOS", "Naive", "SLAP"])
        keep = r.chance(1, 2)
        text = "|" + ",".join("".join("{_:%d}" % gi for gi, g in enumerate(groups) for _ in range(g[mode])) or "0"
                              for mode in range(m)) + ">"
        tcases.append((c, m, groups, heralds, flt, backend, keep, text))
        F = flt + sum(heralds.values())
        treqs.append((40, [m, c.U, [[Fraction(1), groups]], [[h, v] for h, v in heralds.items()], [0], F, keep, []]))
    touts = ctx.model.run(treqs)
    for (c, m, groups, heralds, flt, backend, keep, text), out in zip(tcases, touts):
        desc = {"circuit": c.describe(), "input": text, "heralds (simulator level)": {str(k): v for k, v in heralds.items()},
                "filter": flt, "backend": backend, "keep_heralds": keep}
        ctx.case(["tagged-heralds", gen.qmat_key(c.U), text, sorted(heralds.items()), flt, backend, keep], True, desc)
        ctx.count("tagged-input-herald-expecting-%d" % max(heralds.values()))
        try:
            sim = Simulator({"SLOS": pcvl.SLOSBackend, "Naive": pcvl.NaiveBackend, "SLAP": pcvl.SLAPBackend}[backend]())
            sim.set_precision(0)
            sim.set_circuit(c.build())
            sim.set_selection(min_detected_photons_filter=flt, heralds=dict(heralds))
            sim.keep_heralds(keep)
            res = sim.probs_svd(pcvl.SVDistribution(pcvl.BasicState(text)))
            compare(ctx, "probs_svd-tagged-heralds", desc, res, out, m if keep else m - len(heralds))
        except Exception as e:
            ctx.fail(f"exception-tagged-heralds-{type(e).__name__}", f"raised {type(e).__name__}: {e}", desc)
    ctx.streams["heralds expecting several photons with tagged inputs"] = len(tcases)

    # ---------------------------------------------------------------- processors with loss channels (layered simulator)
    # The unconditioned distribution over the original modes comes from C07's model (enlarged lossless circuit, fid 70);
    # conditioning on filter and heralds is done here exactly on those rationals, following `condition`.

    from perceval.components import LC
    from ..common import PYTH
    nl = ctx.n(40, 500)
    lcases, lreqs = [], []
    for i in range(nl):
        r = rng.fork(("lossy", i))
        m = r.rint(2, 4)
        comps = []
        for sl in r.shuffle(["U"] * r.rint(1, 3) + ["L"] * r.rint(1, 2)):
            if sl == "U":
                lf = gen.rand_leaf(r, m)
                comps.append(("U", r.rint(0, m - lf.k), lf))
            else:
                a_, b_, c_ = r.choice(PYTH[:8])
                comps.append(("L", r.rint(0, m - 1), (Fraction(a_, c_), Fraction(b_, c_))))
        nh = r.rint(0, min(2, m - 1))
        heralds = {h: r.rint(0, 1) for h in sorted(r.shuffle(range(m))[:nh])}
        free = [j for j in range(m) if j not in heralds]
        inp = [0] * len(free)
        for _ in range(r.rint(1, 2)):
            inp[r.below(len(free))] += 1
        flt = r.choice([0, 0, 1, sum(inp)])
        full = [0] * m
        for j, x in zip(free, inp):
            full[j] = x
        for h, v in heralds.items():
            full[h] = v
        enc = [[0, off, lf.k, lf.U] if k == "U" else [1, off, QI(lf[0]), QI(lf[1])] for k, off, lf in comps]
        lcases.append((m, comps, heralds, free, inp, flt, full))
        lreqs.append((70, [m, enc, full]))
    louts = ctx.model.run(lreqs)
    for (m, comps, heralds, free, inp, flt, full), out in zip(lcases, louts):
        desc = {"m": m, "components": [f"add({off}, {lf.describe()})" if k == "U" else f"add({off}, LC({float(lf[1] ** 2)!r}))"
                                       for k, off, lf in comps],
                "heralds": {str(k): v for k, v in heralds.items()}, "input(non-herald modes)": inp, "filter": flt}
        ctx.case(["lossy", str(desc)], len(heralds) > 0 and sum(heralds.values()) > 0, desc)
        ctx.count("lossy-processor")
        dist = {tuple(e[0]): un_q(e[1]) for e in out[1]}
        F = flt + sum(heralds.values())
        passing = {t: pr for t, pr in dist.items() if sum(t) >= F}
        phys = sum(passing.values(), Fraction(0))
        kept = {}
        for t, pr in passing.items():
            if all(t[h] == v for h, v in heralds.items()):
                k_ = tuple(t[j] for j in free)
                kept[k_] = kept.get(k_, Fraction(0)) + pr
        mass = sum(kept.values(), Fraction(0))
        logical = (mass / phys) if phys > 0 else Fraction(0)
        exp = {k_: float(v / mass) for k_, v in kept.items()} if mass > 0 else {}
        try:
            p = pcvl.Processor("SLOS", m)
            for k, off, lf in comps:
                p.add(off, lf.build() if k == "U" else LC(float(lf[1] ** 2)))
            for h, v in heralds.items():
                p.add_herald(h, v)
            p.min_detected_photons_filter(flt)
            p.with_input(BS_(inp))
            res = p.probs(precision=0)
            rp, rl = float(res["physical_perf"]), float(res["logical_perf"])
            rd = {tuple(k): float(v) for k, v in res["results"].items()}
            if abs(rp - float(phys)) > 1e-9:
                ctx.fail("probs-lossy-physical_perf", "processor with loss channels: physical performance differs from "
                         "P(filter passes)", desc, float(phys), rp)
            elif phys > 0 and mass > 0 and abs(rl - float(logical)) > 1e-9:
                ctx.fail("probs-lossy-logical_perf", "processor with loss channels: logical performance differs from "
                         "P(heralds | filter)", desc, float(logical), rl)
            elif any(abs(exp.get(k_, 0.0) - rd.get(k_, 0.0)) > 1e-9 for k_ in set(exp) | set(rd)):
                ctx.fail("probs-lossy-results", "processor with loss channels: conditioned distribution differs", desc,
                         str(sorted(exp.items())), str(sorted(rd.items())))
        except Exception as e:
            ctx.fail(f"exception-lossy-{type(e).__name__}", f"raised {type(e).__name__}: {e}", desc)
    ctx.streams["processors with loss channels"] = len(lcases)

    sample = reqs[:2]
    a = ctx.model.run(sample, jobs=1)
    b = ctx.model.vm_crosscheck(sample, "c04")
    ctx.count("vm_compute_crosscheck", len(sample))
    if a != b:
        ctx.fail("extraction-vs-vm_compute", "extracted runner and vm_compute disagree", {"n": len(sample)})


def cond_cost(m, mix):
    """rough cost of the exact model: outputs of every tag group times the size of their permanents"""
    import math
    cost = 0
    for _, groups in mix:
        outs = 1
        for g in groups:
            n = sum(g)
            outs *= math.comb(m + n - 1, n)
            cost += math.comb(m + n - 1, n) * (m ** n) * max(n, 1)
        cost += outs * len(groups)
    return cost


def level_ok(r):
    return True


def remap_ps(tree, free):
    """post-selection generated on the non-herald modes, re-expressed on circuit modes"""
    if tree[0] == 0:
        return tree
    if tree[0] == 1:
        return [1, [free[j] for j in tree[1]], tree[2], tree[3]]
    return [tree[0]] + [remap_ps(t, free) for t in tree[1:]]


def show_ps(tree):
    if tree[0] == 1:
        return f"{list(tree[1])} {OPS[tree[2]]} {tree[3]}"
    if tree[0] == 5:
        return f"!({show_ps(tree[1])})"
    sym = {2: "&", 3: "|", 4: "^"}[tree[0]]
    return f"({show_ps(tree[1])}) {sym} ({show_ps(tree[2])})"


def replay(ctx, case):
    print(json.dumps(case, indent=1, default=str))
