"""C05 replay worker: runs histories on ONE long-lived Perceval object per history, in a child process.

stdin : one JSON job per line {"target": "backend:SLOS"|"backend:Naive"|"backend:SLAP"|"backend:MPS"|"simulator:<B>"|
                                 "stepper"|"processor:<B>",
                       "circuits": [ {"m": m, "comps": [[offset, kind, args], ...]} ...],
                       "histories": [ [op, ...], ... ], "whitebox": bool}
stdout: one JSON line per executed step, flushed at once: {"i": history, "k": step, "c": "ok"|"err", "e": exception
        type, "v": value, "w": white-box snapshot}, then {"i": history, "end": true}.  A native crash kills the
        process: the parent sees the last answered step, attributes the crash to the next step of that history
        (observable class `crash`) and restarts a child on the remaining histories.
Nothing in /repo is modified; private attributes are only read.
"""
from __future__ import annotations
import json
import sys

ZERO = 1e-12
PARAMS = {}          # perceval Parameters of the object under test (reset per history)


def mk_component(kind, args):
    """One public component of any class the property names: unitary, polarization, loss."""
    import perceval as pcvl
    import numpy as np
    from perceval.components import BS, PS, PERM, Unitary, PR, WP, HWP, QWP, PBS, LC
    from perceval.components.unitary_components import BSConvention
    if kind == "BS":
        cv, th, ph = args
        return BS(th, ph[0], ph[1], ph[2], ph[3], convention=[BSConvention.Rx, BSConvention.Ry, BSConvention.H][cv])
    if kind == "PS":
        return PS(args[0])
    if kind == "PPS":      # phase shifter bound to the named parameter; its value is set when first seen
        name, val = args
        if name not in PARAMS:
            PARAMS[name] = pcvl.P(name)
            PARAMS[name].set_value(val)
        return PS(PARAMS[name])
    if kind == "PERM":
        return PERM(list(args[0]))
    if kind == "U":
        return Unitary(pcvl.Matrix(np.array([[complex(a, b) for a, b in row] for row in args[0]], dtype=complex)))
    if kind == "PR":
        return PR(delta=args[0])
    if kind == "WP":
        return WP(delta=args[0], xsi=args[1])
    if kind == "HWP":
        return HWP(xsi=args[0])
    if kind == "QWP":
        return QWP(xsi=args[0])
    if kind == "PBS":
        return PBS()
    if kind == "LC":
        return LC(args[0])
    raise ValueError(kind)


def build_circuit(desc):
    import perceval as pcvl
    c = pcvl.Circuit(desc["m"])
    for off, kind, args in desc["comps"]:
        c.add(off, mk_component(kind, args))
    return c


def bs(l):
    from perceval.utils import BasicState
    return BasicState(list(l))


def v_dist(d):
    return sorted([[list(k), float(p)] for k, p in d.items() if abs(p) > ZERO])


def v_sv(sv):
    out = []
    for k, a in sv:
        a = complex(a)
        if abs(a) > ZERO:
            out.append([list(k), a.real, a.imag])
    return sorted(out)


def v_list(xs):
    return [float(x) for x in xs]


# ------------------------------------------------------------------------------------------------ backends
def make_backend(name, opts=None):
    """opts: constructor options of the engine (SLOS: use_symbolic, mask; MPS: cutoff)."""
    from perceval.backends import NaiveBackend, SLOSBackend, SLAPBackend, MPSBackend
    return {"Naive": NaiveBackend, "SLOS": SLOSBackend, "SLAP": SLAPBackend, "MPS": MPSBackend}[name](**(opts or {}))


def wb_backend(b):
    w = {"it": sorted(b._cache_iterator.keys()), "masks": b._masks_str, "mask_n": b._mask_n,
         "has_mask": b._mask is not None, "input": list(b._input_state) if b._input_state is not None else None}
    if hasattr(b, "_fsas"):
        w["fsas"] = sorted(b._fsas.keys())
        w["fsas_count"] = [[k, b._fsas[k].count()] for k in sorted(b._fsas.keys())]
        w["nfsms"] = len(b._fsms)
        w["mk_l"] = list(b._mk_l)
        w["mapped"] = sorted(list(k) for k in b._state_mapping.keys())
        w["roots"] = len(b._path_roots)
    if hasattr(b, "_cutoff"):
        w["cutoff"] = b._cutoff
        w["res"] = sorted(list(k) for k in b._res.keys() if k is not None)
    return w


def op_backend(b, circuits, op):
    k = op[0]
    if k == "circ":
        b.set_circuit(build_circuit(circuits[op[1]]))
    elif k == "in":
        b.set_input_state(bs(op[1]))
    elif k == "mask":
        if op[2] is None:
            b.set_mask(list(op[1]))
        else:
            b.set_mask(list(op[1]), op[2])
    elif k == "clear":
        b.clear_mask()
    elif k == "cutoff":
        b.set_cutoff(op[1])
    elif k == "q":
        q = op[1]
        if q == "amp":
            a = complex(b.prob_amplitude(bs(op[2])))
            return [a.real, a.imag]
        if q == "prob":
            return float(b.probability(bs(op[2])))
        if q == "dist":
            return v_dist(b.prob_distribution())
        if q == "allprob":
            return v_list(b.all_prob())
        if q == "allprob_in":
            return v_list(b.all_prob(bs(op[2])))
        if q == "evolve":
            return v_sv(b.evolve())
        raise ValueError(q)
    else:
        raise ValueError(k)
    return None


# ------------------------------------------------------------------------------------------------ simulator
def make_simulator(name):
    from perceval.simulators import Simulator
    return Simulator(make_backend(name))


def wb_simulator(s):
    keys = []
    for k in s._evolve.keys():
        if isinstance(k, tuple):
            keys.append([list(k[0]), k[1]])
        else:
            keys.append([list(k), None])
    w = {"evolve": sorted(keys, key=str), "can_use_mask": bool(s._can_use_mask)}
    w.update({"b_" + k: v for k, v in wb_backend(s._backend).items()})
    return w


def mk_state(d):
    """d: list of ints (plain Fock state) or a string in Perceval syntax (annotated)."""
    from perceval.utils import BasicState
    return BasicState(d) if isinstance(d, str) else BasicState(list(d))


def mk_sv(terms):
    from perceval.utils import StateVector
    sv = StateVector()
    for re_, im_, st in terms:
        sv += complex(re_, im_) * StateVector(mk_state(st))
    return sv


def mk_svd(desc):
    """desc: [[p, [[re, im, state] ...]] ...]"""
    from perceval.utils import SVDistribution, StateVector
    svd = SVDistribution()
    for p, terms in desc:
        sv = StateVector()
        for re_, im_, st in terms:
            sv += complex(re_, im_) * StateVector(mk_state(st))
        svd[sv] = p
    return svd


def mk_detectors(desc):
    from perceval.components import Detector
    if desc is None:
        return None
    return [None if d is None else (Detector.pnr() if d == "pnr" else Detector.threshold()) for d in desc]


def op_simulator(s, circuits, op):
    from perceval.utils import PostSelect
    k = op[0]
    if k == "circ":
        s.set_circuit(build_circuit(circuits[op[1]]))
    elif k == "heralds":
        s.set_heralds({int(a): b for a, b in op[1]})
    elif k == "clear_heralds":
        s.clear_heralds()
    elif k == "postselect":
        s.set_postselection(PostSelect(op[1]))
    elif k == "clear_postselect":
        s.clear_postselection()
    elif k == "filter":
        s.set_min_detected_photons_filter(op[1])
    elif k == "keep_heralds":
        s.keep_heralds(bool(op[1]))
    elif k == "precision":
        s.set_precision(op[1])
    elif k == "selection":      # the other route to the same settings: [filter | None, postselect | None, heralds | None]
        kw = {}
        if op[1] is not None:
            kw["min_detected_photons_filter"] = op[1]
        if op[2] is not None:
            kw["postselect"] = PostSelect(op[2]) if op[2] else PostSelect()
        if op[3] is not None:
            kw["heralds"] = {int(a): b for a, b in op[3]}
        s.set_selection(**kw)
    elif k == "q":
        q = op[1]
        if q == "probs":
            r = s.probs(mk_state(op[2]))
            return {"dist": v_dist(r), "lperf": float(s.logical_perf)}
        if q == "evolve":
            r = s.evolve(mk_state(op[2]))
            return {"sv": v_sv(r), "lperf": float(s.logical_perf)}
        if q == "evolve_sv":          # a superposed input: [[re, im, state] ...]
            r = s.evolve(mk_sv(op[2]))
            return {"sv": v_sv(r), "lperf": float(s.logical_perf)}
        if q == "probs_sv":
            r = s.probs(mk_sv(op[2]))
            return {"dist": v_dist(r)}
        if q == "evolve_svd":
            r = s.evolve_svd(mk_svd(op[2]))
            items = sorted(([v_sv(sv), float(p)] for sv, p in r["results"].items()),
                           key=lambda e: json.dumps([t[0] for t in e[0]]))
            rows = [[[idx] + t[0], t[1], t[2], p] for idx, (terms, p) in enumerate(items) for t in terms]
            return {"svd": rows,
                    "pperf": float(r["physical_perf"]), "lperf": float(r["logical_perf"])}
        if q == "probs_svd":
            r = s.probs_svd(mk_svd(op[2]), mk_detectors(op[3]) if len(op) > 3 else None)
            return {"dist": v_dist(r["results"]), "pperf": float(r["physical_perf"]), "lperf": float(r["logical_perf"])}
        if q == "amp":
            a = complex(s.prob_amplitude(mk_state(op[2]), mk_state(op[3])))
            return [a.real, a.imag]
        if q == "prob":
            return float(s.probability(mk_state(op[2]), mk_state(op[3])))
        raise ValueError(q)
    else:
        raise ValueError(k)
    return None


# ------------------------------------------------------------------------------------------------ stepper
def make_stepper():
    from perceval.simulators.stepper import Stepper
    return Stepper()


def wb_stepper(s):
    return {"result_keys": len(getattr(s, "_result_dict", {}))}


def op_stepper(s, circuits, op):
    k = op[0]
    if k == "circ":
        s.set_circuit(build_circuit(circuits[op[1]]))
    elif k == "param":
        PARAMS[op[1]].set_value(op[2])
    elif k == "filter":
        s.set_min_detected_photons_filter(op[1])
    elif k == "heralds":
        s.set_heralds({int(a): b for a, b in op[1]})
    elif k == "keep_heralds":
        s.keep_heralds(bool(op[1]))
    elif k == "precision":
        s.set_precision(op[1])
    elif k == "selection":
        from perceval.utils import PostSelect
        kw = {}
        if op[1] is not None:
            kw["min_detected_photons_filter"] = op[1]
        if op[2] is not None:
            kw["postselect"] = PostSelect(op[2]) if op[2] else PostSelect()
        if op[3] is not None:
            kw["heralds"] = {int(a): b for a, b in op[3]}
        s.set_selection(**kw)
    elif k == "q":
        q = op[1]
        if q == "probs":
            return {"dist": v_dist(s.probs(mk_state(op[2])))}
        if q == "evolve":
            return {"sv": v_sv(s.evolve(mk_state(op[2])))}
        if q == "probs_svd":
            r = s.probs_svd(mk_svd(op[2]))
            return {"dist": v_dist(r["results"]), "pperf": float(r["physical_perf"]), "lperf": float(r["logical_perf"])}
        raise ValueError(q)
    else:
        raise ValueError(k)
    return None


# ------------------------------------------------------------------------------------------------ processor
class ProcBox:
    """A processor built from a parametrised circuit: PS(phi_k) placeholders are perceval Parameters."""

    def __init__(self, backend, desc):
        import perceval as pcvl
        from perceval.components import Processor, PS
        self.params = PARAMS
        self.p = Processor(backend, desc["m"])
        for off, kind, args in desc["comps"]:
            self.p.add(off, mk_component(kind, args))


def _width(kind, args):
    if kind == "BS":
        return 2
    if kind in ("PS", "PPS"):
        return 1
    if kind == "PERM":
        return len(args[0])
    return len(args[0])


def wb_processor(box):
    p = box.p
    return {"has_sim": p._simulator is not None, "min_filter": p._min_detected_photons_filter}


def op_processor(box, circuits, op):
    import perceval as pcvl
    from perceval.utils import NoiseModel, PostSelect
    p = box.p
    k = op[0]
    if k == "param":
        box.params[op[1]].set_value(op[2])
    elif k == "add":
        off, kind, args = op[1]
        p.add(off, mk_component(kind, args))
    elif k == "noise":
        p.noise = NoiseModel(**op[1]) if op[1] is not None else None
    elif k == "filter":
        p.min_detected_photons_filter(op[1])
    elif k == "input":
        p.with_input(mk_state(op[1]))
    elif k == "pinput":
        p.with_polarized_input(mk_state(op[1]))
    elif k == "postselect":
        p.set_postselection(PostSelect(op[1]))
    elif k == "clear_postselect":
        p.clear_postselection()
    elif k == "herald":
        p.add_herald(op[1], op[2])
    elif k == "q":
        r = p.probs(precision=0) if op[1] == "probs0" else p.probs()
        return {"dist": v_dist(r["results"]), "pperf": float(r.get("physical_perf", 1)),
                "lperf": float(r.get("logical_perf", 1))}
    else:
        raise ValueError(k)
    return None


# ------------------------------------------------------------------------------------------------ main loop
def run_history(target, circuits, hist, whitebox, emit):
    kind, _, arg = target.partition(":")
    if kind == "backend":
        obj, op_f, wb_f = make_backend(arg), op_backend, wb_backend
    elif kind == "simulator":
        obj, op_f, wb_f = make_simulator(arg), op_simulator, wb_simulator
    elif kind == "stepper":
        obj, op_f, wb_f = make_stepper(), op_stepper, wb_stepper
    elif kind == "processor":
        obj, op_f, wb_f = None, op_processor, wb_processor
    else:
        raise ValueError(target)
    PARAMS.clear()
    for k, op in enumerate(hist):
        st = {"k": k}
        try:
            if kind == "processor" and op[0] == "new":
                obj = ProcBox(arg, circuits[op[1]])
                v = None
            elif kind == "backend" and op[0] == "new":
                obj = make_backend(arg, op[1])       # the engine with constructor options
                v = None
            else:
                v = op_f(obj, circuits, op)
            st["c"] = "ok"
            if v is not None:
                st["v"] = v
        except BaseException as e:          # noqa: an assertion, KeyError, ValueError ... is an observable class
            if isinstance(e, (KeyboardInterrupt, SystemExit, MemoryError)):
                raise
            st["c"] = "err"
            st["e"] = type(e).__name__
            st["msg"] = str(e)[:120]
        if whitebox and obj is not None:
            try:
                st["w"] = wb_f(obj)
            except Exception as e:
                st["w"] = {"wb_error": type(e).__name__}
        emit(st)
        if st["c"] == "err" and op[0] != "q":
            break                           # a raising mutator ends the history (the object may be half-updated)


def main():
    """One JSON job per input line; after each job a line {"done": true}."""
    try:
        from perceval.utils.logging import get_logger, level, channel
        for ch in (channel.general, channel.user, channel.resources):
            get_logger().set_level(level.critical, ch)
    except Exception:
        pass
    out = sys.stdout
    out.write(json.dumps({"ready": True}) + "\n")
    out.flush()
    for line in sys.stdin:
        line = line.strip()
        if not line:
            continue
        job = json.loads(line)
        indices = job.get("indices", list(range(len(job["histories"]))))
        for i, hist in enumerate(job["histories"]):
            idx = indices[i]

            def emit(st):
                st["i"] = idx
                out.write(json.dumps(st) + "\n")
                out.flush()
            run_history(job["target"], job["circuits"], hist, job.get("whitebox", False), emit)
            out.write(json.dumps({"i": idx, "end": True}) + "\n")
            out.flush()
        out.write(json.dumps({"done": True}) + "\n")
        out.flush()


if __name__ == "__main__":
    main()
