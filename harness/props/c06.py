"""C06 — the photon source model has the statistics its parameters promise."""
from __future__ import annotations
import json
import re
from collections import Counter
from fractions import Fraction as F

from ..common import un_q

LEVEL = "proof"
RULE = ("configurations (brightness px, g2, indistinguishability = s^2, transmittance, multi-photon model) on a grid plus "
        "random admissible values chosen so that the roots the code takes are rational (1-2*px*g2 = r^2, s rational); "
        "expected inputs with 0..3 photons per mode on 1..4 modes (total photons capped at 5, a few at 6, when photons carry tags, "
        "because the distribution has up to 5^n states; at 7, a few at 9, otherwise). Per configuration the real code and the extracted Coq model "
        "are compared on _get_probs, _generate_one_photon_distribution, probability_distribution, "
        "generate_distribution (every state, tags up to renaming, mass), Processor.source_distribution through "
        "NoiseModel/Source.from_noise_model, _compute_prob_table (keys, values, physical performance, zero-photon "
        "probability, with and without filter), and the sampler generate_samples (with and without a min-photon "
        "filter) by a chi-square goodness-of-fit test against the model's exact probabilities. Non-trivial: g2 > 0 "
        "and transmittance < 1; distinct by (configuration, input, filter). HISTORIES on one object: (a) one Source "
        "receives 4-7 calls among generate_distribution / probability_distribution / cache_prob_table / "
        "generate_samples with varying input and filter, mostly at the SAME total photon count (non-trivial: two "
        "different non-zero filters in the history); (b) one Processor (identity circuit) whose noise is replaced by "
        "a new NoiseModel, by the user's NoiseModel object mutated in place with set_value and assigned again, "
        "re-assigned unchanged, set to None, whose input changes, and which is sampled through "
        "processor.source.generate_samples and Processor.samples under a changing min_detected_photons_filter "
        "(non-trivial: history contains an in-place mutation or None). After EVERY step the observable "
        "(distribution, returned physical performance / zero-photon probability, cached table, samples by "
        "goodness-of-fit, filter respected, Source fields, perfect-source identity) is compared with the model "
        "evaluated at the CURRENT parameters, input and filter; failing histories are shrunk by deleting operations.")
TRUSTED = ["model: coq/Model/Source.v, SourceX.v (hand-written from perceval/components/source.py; tied by this stream)",
           "scipy.stats.chi2 for the tail probability of the goodness-of-fit statistic",
           "exqalibur BSDistribution/BasicState merge/tensor kernels have no model of their own: they are compared with "
           "the model's list product only"]
ASSUMPTIONS = ["tolerance 1e-9 on probabilities; floating-point rounding not modelled (r >= 1/10 or exactly 0 with "
               "exactly representable px, g2, so that sqrt(1-2*px*g2) is well conditioned)",
               "annotation tags are compared up to renaming of the non-zero tags; un-annotated photons and '_:0' are "
               "identified (the code's non-partially-distinguishable branch 'just avoids annotations')",
               "the 1e-16 trimming (global_params['min_p']) inside generate_distribution is below the tolerance and is "
               "not modelled",
               "sampler: cells with expected count < 25 are pooled; false-alarm level 1e-9 per tested configuration "
               "(chi-square approximation of the multinomial); seeds fixed through pcvl.random_seed",
               "filters are generated only where the kept mass is > 0 (conditioning on a null event is undefined)"]

ALPHA = 1e-9
TOL = 1e-9
TAG_RE = re.compile(r"^_:(\d+)$")


# ------------------------------------------------------------------ configurations
class Cfg:
    def __init__(self, px, g2, r, s, t, dm):
        self.px, self.g2, self.r, self.s, self.t, self.dm = F(px), F(g2), F(r), F(s), F(t), bool(dm)
        assert self.r * self.r == 1 - 2 * self.px * self.g2 and 0 < self.px <= 1 and 0 <= self.g2 <= 1
        assert 0 <= self.s <= 1 and 0 <= self.t <= 1 and 0 <= self.r <= 1

    @property
    def ind(self):
        return self.s * self.s

    def tree(self):
        return [self.px, self.g2, self.ind, 1 - self.t, self.dm, self.r, self.s]

    def key(self):
        return [str(x) for x in (self.px, self.g2, self.s, self.t)] + [self.dm]

    def describe(self):
        return {"brightness": str(self.px), "g2": str(self.g2), "indistinguishability": str(self.ind),
                "transmittance": str(self.t), "g2_distinguishable": self.dm,
                "sqrt(1-2*px*g2)": str(self.r), "sqrt(indistinguishability)": str(self.s)}

    def source(self):
        from perceval.components.source import Source
        return Source(emission_probability=float(self.px), multiphoton_component=float(self.g2),
                      indistinguishability=float(self.ind), losses=float(1 - self.t),
                      multiphoton_model="distinguishable" if self.dm else "indistinguishable")

    def noise_kwargs(self, explicit):
        """explicit: 5 booleans — pass a field although it has its default value"""
        kw = {}
        vals = [("brightness", self.px, 1), ("indistinguishability", self.ind, 1), ("g2", self.g2, 0),
                ("g2_distinguishable", self.dm, True), ("transmittance", self.t, 1)]
        for (name, v, d), ex in zip(vals, explicit):
            if v != d or ex:
                kw[name] = v if isinstance(v, bool) else float(v)
        return kw

    def noise_tree(self, explicit):
        kw = self.noise_kwargs(explicit)
        vals = [("brightness", self.px), ("indistinguishability", self.ind), ("g2", self.g2),
                ("g2_distinguishable", self.dm), ("transmittance", self.t)]
        return [([v] if n in kw else []) for n, v in vals] + [self.r, self.s]

    def tagged(self):
        return self.s != 1 or (self.dm and self.g2 != 0)

    def perfect(self):
        return self.px == 1 and self.g2 == 0 and self.s == 1 and self.t == 1

    def nontrivial(self):
        return self.g2 > 0 and self.t < 1


R_VALUES = [F(1, 2), F(3, 5), F(4, 5), F(9, 10), F(7, 10), F(1, 10), F(12, 13), F(1, 4), F(19, 20), F(2, 3)]
S_VALUES = [F(1), F(9, 10), F(1, 2), F(3, 4), F(0), F(19, 20), F(1, 3), F(4, 5)]
T_VALUES = [F(1), F(1, 2), F(3, 4), F(1, 4), F(9, 10), F(0), F(1, 3), F(3, 5), F(1, 8)]
PX_VALUES = [F(1), F(1, 2), F(3, 4), F(4, 5), F(9, 10), F(1, 4), F(2, 3), F(3, 5)]


def g2_for(px, r):
    return (1 - r * r) / (2 * px)


def grid():
    out = []
    # g2 = 0 family
    for px in (F(1), F(1, 2)):
        for s in (F(1), F(9, 10)):
            for t in (F(1), F(3, 4)):
                for dm in (True, False):
                    out.append(Cfg(px, 0, 1, s, t, dm))
    # g2 > 0, both models, loss / no loss
    for px, r in ((F(1), F(4, 5)), (F(4, 5), F(3, 5)), (F(1), F(0)), (F(1, 2), F(0)), (F(3, 4), F(1, 2))):
        for s in (F(1), F(3, 4)):
            for t in (F(1), F(1, 2)):
                for dm in (True, False):
                    out.append(Cfg(px, g2_for(px, r), r, s, t, dm))
    out.append(Cfg(1, 0, 1, 0, 1, True))          # fully distinguishable
    out.append(Cfg(F(1, 2), 1, 0, 0, F(1, 2), False))   # r = 0, no indistinguishable photon
    return out


def rand_cfg(rng):
    for _ in range(100):
        k = rng.below(10)
        if k == 0:
            r = F(1)
        elif k == 1:
            r = F(0)
        else:
            r = rng.choice(R_VALUES)
        if r == 0:
            px = rng.choice([F(1), F(1, 2)])       # px and g2 exactly representable: sqrt(0) is exact
        else:
            px = rng.choice(PX_VALUES)
        g2 = g2_for(px, r)
        if g2 > 1:
            continue
        return Cfg(px, g2, r, rng.choice(S_VALUES), rng.choice(T_VALUES), rng.chance(1, 2))
    return Cfg(1, 0, 1, 1, 1, True)


def rand_input(rng, cfg, cap_tagged=5, cap_plain=7):
    m = rng.rint(1, 4)
    cap = cap_tagged if cfg.tagged() else cap_plain
    for _ in range(50):
        s = [rng.rint(0, 3) for _ in range(m)]
        if sum(s) <= cap:
            return s
    return [1] * m


# ------------------------------------------------------------------ canonical forms (tags up to renaming)
def canon_modes(modes):
    """modes: list (per mode) of tags (0 = signal/un-annotated, other hashables = other tags). Invariant under any
    renaming of the non-zero tags: (zero-tag count per mode, sorted multiset of per-mode count vectors of the others)."""
    m = len(modes)
    prof = {}
    for k, tags in enumerate(modes):
        for t in tags:
            prof.setdefault(t, [0] * m)[k] += 1
    zero = tuple(prof.pop(0, [0] * m))
    return (zero, tuple(sorted(tuple(v) for v in prof.values())))


def modes_of_bs(bs):
    out = []
    for k in range(bs.m):
        tags = []
        for a in bs.get_mode_annotations(k):
            s = str(a)
            mt = TAG_RE.match(s)
            tags.append(0 if s == "" else (int(mt.group(1)) if mt else s))
        if len(tags) != bs[k]:
            tags += [0] * (bs[k] - len(tags))
        out.append(tags)
    return out


def canon_bs(bs):
    return canon_modes(modes_of_bs(bs))


def canon_svd(svd):
    """SVDistribution / BSDistribution -> {canonical state: probability}; None if a key is a superposition"""
    out = {}
    for key, p in svd.items():
        if hasattr(key, "get_mode_annotations"):
            bs = key
        else:
            if len(key) != 1:
                return None
            bs = key[0]
        c = canon_bs(bs)
        out[c] = out.get(c, 0.0) + float(p)
    return out


def canon_model(dist):
    out = {}
    for st, p in dist:
        c = canon_modes(st)
        out[c] = out.get(c, F(0)) + un_q(p)
    return {k: v for k, v in out.items() if v != 0}


def dist_diff(exp, obs, tol=TOL):
    """first differing key or None"""
    for k in set(exp) | set(obs):
        e, o = float(exp.get(k, 0)), obs.get(k, 0.0)
        if abs(e - o) > tol:
            return k, e, o
    return None


def show(k):
    return json.dumps(k)


# ------------------------------------------------------------------ model access with a cache
class M:
    def __init__(self, ctx):
        self.ctx = ctx
        self.cache = {}

    def prefetch(self, reqs):
        todo = [r for r in reqs if json.dumps(r, default=str) not in self.cache]
        # unique
        seen, uniq = set(), []
        for r in todo:
            k = json.dumps(r, default=str)
            if k not in seen:
                seen.add(k)
                uniq.append(r)
        for r, o in zip(uniq, self.ctx.model.run([(r[0], r[1]) for r in uniq])):
            self.cache[json.dumps(r, default=str)] = o

    def get(self, fid, tree):
        k = json.dumps([fid, tree], default=str)
        if k not in self.cache:
            self.cache[k] = self.ctx.model.run([(fid, tree)])[0]
        return self.cache[k]


# ------------------------------------------------------------------ single checks: return list of (sig, what, exp, obs)
def check_probs(mdl, cfg):
    out = mdl.get(600, cfg.tree())
    exp = [float(un_q(x)) for x in out[:3]]
    src = cfg.source()
    obs = [float(x) for x in src._get_probs()]
    res = []
    if any(abs(a - b) > TOL for a, b in zip(exp, obs)):
        res.append(("get_probs", "_get_probs differs from (eta*p1, eta*(1-eta)*p2, eta^2*p2)", str(exp), str(obs)))
    if bool(out[6]) != bool(src.is_perfect()):
        res.append(("is_perfect", "is_perfect differs", bool(out[6]), bool(src.is_perfect())))
    if bool(out[7]) != bool(src.partially_distinguishable):
        res.append(("partially_distinguishable", "partially_distinguishable differs", bool(out[7]),
                    bool(src.partially_distinguishable)))
    return res


def check_one_photon(mdl, cfg):
    out = mdl.get(601, [cfg.tree(), 0])
    exp = canon_model([([e[0]], e[1]) for e in out[0]])
    src = cfg.source()
    c0 = src._context["discernability_tag"]
    d = src._generate_one_photon_distribution()
    obs = canon_svd(d)
    res = []
    df = dist_diff(exp, obs)
    if df:
        res.append(("one-photon-distribution", "_generate_one_photon_distribution differs from the model at " + show(df[0]),
                    df[1], df[2]))
    if src._context["discernability_tag"] - c0 != out[1]:
        res.append(("one-photon-tag-counter", "tag counter advance differs", out[1], src._context["discernability_tag"] - c0))
    if sum(un_q(e[1]) for e in out[0]) != 1:
        res.append(("model-one-photon-mass", "model mass differs from 1 (proved impossible)", 1, None))
    return res


def check_prob_dist(mdl, cfg, n):
    out = mdl.get(602, [cfg.tree(), 0, n])
    exp = canon_model([([e[0]], e[1]) for e in out[0]])
    src = cfg.source()
    obs = canon_svd(src.probability_distribution(n, prob_threshold=0))
    if obs is None:
        return [("probability_distribution-superposition", "a key of the distribution is a superposition", None, None)]
    df = dist_diff(exp, obs)
    if df:
        return [("probability_distribution", f"probability_distribution({n}) differs from the model at " + show(df[0]),
                 df[1], df[2])]
    return []


def expected_dist(mdl, cfg, inp):
    out = mdl.get(603, [cfg.tree(), 0, inp])
    return un_q(out[0]), canon_model(out[1])


def check_generate(mdl, cfg, inp):
    import perceval as pcvl
    mass, exp = expected_dist(mdl, cfg, inp)
    res = []
    if mass != 1 or sum(exp.values()) != 1:
        res.append(("model-mass", "exact mass of the model distribution differs from 1 (proved impossible)", 1, str(mass)))
    src = cfg.source()
    d = src.generate_distribution(pcvl.BasicState(inp), prob_threshold=0)
    obs = canon_svd(d)
    if obs is None:
        return res + [("generate_distribution-superposition", "a key of the distribution is a superposition", None, None)]
    df = dist_diff(exp, obs)
    if df:
        res.append(("generate_distribution", "generate_distribution differs from the model at state " + show(df[0]), df[1], df[2]))
    if abs(sum(obs.values()) - 1) > TOL:
        res.append(("generate_distribution-mass", "generate_distribution is not normalised", 1, sum(obs.values())))
    if cfg.perfect():
        keys = [str(k) for k in d.keys()]
        if keys != [str(pcvl.StateVector(pcvl.BasicState(inp)))] or abs(list(d.values())[0] - 1) > 0:
            res.append(("perfect-source", "a perfect source does not return the requested state unchanged",
                        str(pcvl.BasicState(inp)), str(keys)))
    # second call on the same Source object: only the tag numbers may change
    obs2 = canon_svd(src.generate_distribution(pcvl.BasicState(inp), prob_threshold=0))
    if obs2 is None or dist_diff(exp, obs2):
        res.append(("generate_distribution-second-call", "second call on the same Source differs (beyond tag renaming)", None, None))
    return res


def check_processor(mdl, cfg, inp, explicit):
    import perceval as pcvl
    from perceval.components.source import Source
    res = []
    kw = cfg.noise_kwargs(explicit)
    nm = pcvl.NoiseModel(**kw)
    fields = mdl.get(605, cfg.noise_tree(explicit))
    src = Source.from_noise_model(nm)
    obs = [src._emission_probability, src._multiphoton_component, src._indistinguishability, src._losses,
           src._multiphoton_model == "distinguishable"]
    exp = [float(un_q(fields[0])), float(un_q(fields[1])), float(un_q(fields[2])), float(un_q(fields[3])), bool(fields[4])]
    if any(abs(float(a) - float(b)) > 1e-12 for a, b in zip(exp[:4], obs[:4])) or exp[4] != obs[4]:
        res.append(("from_noise_model-fields", "NoiseModel -> Source field mapping differs", str(exp), str(obs)))
    if [un_q(fields[i]) for i in range(4)] + [bool(fields[4])] != [cfg.px, cfg.g2, cfg.ind, 1 - cfg.t, cfg.dm]:
        res.append(("model-from_noise", "model from_noise differs from the direct parameters", None, None))
    _, expd = expected_dist(mdl, cfg, inp)
    p = pcvl.Processor("SLOS", len(inp), noise=nm if kw else None)
    p.with_input(pcvl.BasicState(inp))
    obsd = canon_svd(p.source_distribution)
    if obsd is None:
        return res + [("source_distribution-superposition", "a key of the distribution is a superposition", None, None)]
    df = dist_diff(expd, obsd)
    if df:
        res.append(("source_distribution", "Processor.source_distribution differs from the model at state " + show(df[0]),
                    df[1], df[2]))
    # setting the noise after the input must give the same distribution
    p2 = pcvl.Processor("SLOS", len(inp))
    p2.with_input(pcvl.BasicState(inp))
    p2.noise = nm
    obs2 = canon_svd(p2.source_distribution)
    if obs2 is None or dist_diff(expd, obs2):
        res.append(("source_distribution-noise-after-input", "setting the noise after the input gives another distribution", None, None))
    return res


def check_table(mdl, cfg, n, f):
    out = mdl.get(604, [cfg.tree(), n, f])
    exp = {tuple(e[0]): un_q(e[1]) for e in out[0]}
    phys, zpp = un_q(out[1]), un_q(out[2])
    src = cfg.source()
    res = []
    try:
        tab, ophys, ozpp = src._compute_prob_table(n, f)
    except ZeroDivisionError:
        if phys == 0:
            return []
        raise
    if set(tab) != set(exp):
        res.append(("prob_table-keys", "_compute_prob_table keys differ", str(sorted(exp)), str(sorted(tab))))
    else:
        for k in exp:
            if abs(float(exp[k]) - tab[k]) > TOL:
                res.append(("prob_table-values", f"_compute_prob_table value differs at {k}", float(exp[k]), tab[k]))
                break
    if abs(float(phys) - ophys) > TOL:
        res.append(("prob_table-phys_perf", "physical performance differs from the kept mass", float(phys), ophys))
    if abs(float(zpp) - ozpp) > TOL:
        res.append(("prob_table-zpp", "zero-photon probability differs from p0^n", float(zpp), ozpp))
    if phys != 0 and f and sum(exp.values()) != 1:
        res.append(("model-table-mass", "conditioned model table does not sum to 1 (proved impossible)", 1, None))
    if f == 0 and (phys != 1 or sum(exp.values()) != 1):
        res.append(("model-table-mass", "model table does not sum to 1 (proved impossible)", 1, str(phys)))
    return res


def kept_mass(mdl, cfg, inp, f):
    out = mdl.get(606, [cfg.tree(), 0, inp, f])
    return un_q(out[1]), canon_model(out[0])


def check_table_vs_dist(mdl, cfg, inp, f):
    """the table's physical performance is the mass the distribution puts on >= f photons"""
    out = mdl.get(604, [cfg.tree(), sum(inp), f])
    km, _ = kept_mass(mdl, cfg, inp, f)
    if un_q(out[1]) != km:
        return [("model-table-vs-distribution", "model: table phys_perf differs from the distribution's kept mass",
                 str(km), str(un_q(out[1])))]
    return []


def gof(exp, counts, n):
    """Pearson chi-square with pooling of small cells. exp: {key: Fraction}; counts: Counter. Returns (pvalue, detail)."""
    from scipy.stats import chi2
    impossible = [k for k in counts if exp.get(k, 0) == 0]
    if impossible:
        return 0.0, {"impossible_outcome": show(impossible[0]), "count": counts[impossible[0]]}
    cells, rest_e, rest_o = [], 0.0, 0
    for k, p in exp.items():
        e = float(p) * n
        if e >= 25:
            cells.append((e, counts.get(k, 0), k))
        else:
            rest_e += e
            rest_o += counts.get(k, 0)
    if rest_e > 0:
        if rest_e >= 25 or not cells:
            cells.append((rest_e, rest_o, "pooled"))
        else:   # merge the small remainder into the smallest cell
            cells.sort(key=lambda c: c[0])
            e, o, k = cells[0]
            cells[0] = (e + rest_e, o + rest_o, k)
    if len(cells) < 2:
        return 1.0, {"cells": len(cells)}
    stat = sum((o - e) ** 2 / e for e, o, _ in cells)
    worst = max(cells, key=lambda c: (c[1] - c[0]) ** 2 / c[0])
    return float(chi2.sf(stat, len(cells) - 1)), {"cells": len(cells), "chi2": stat,
                                                  "worst_cell": show(worst[2]) if worst[2] != "pooled" else "pooled",
                                                  "expected": worst[0], "observed": worst[1]}


def check_sampler(mdl, cfg, inp, f, nsamples, seed):
    import perceval as pcvl
    if f:
        km, exp = kept_mass(mdl, cfg, inp, f)
        if km == 0:
            return []
    else:
        _, exp = expected_dist(mdl, cfg, inp)
    pcvl.random_seed(seed)
    src = cfg.source()
    smp = src.generate_samples(nsamples, pcvl.BasicState(inp), f)
    res = []
    if len(smp) != nsamples:
        return [("sampler-count", "generate_samples returned another number of samples", nsamples, len(smp))]
    first = {}
    cnt = Counter()
    for x in smp:
        s = str(x)
        if s not in first:
            first[s] = canon_bs(x)
        cnt[first[s]] += 1
    if cfg.perfect():
        if list(first) != [str(pcvl.BasicState(inp))]:
            res.append(("perfect-source-samples", "a perfect source does not sample the requested state",
                        str(pcvl.BasicState(inp)), str(list(first)[:3])))
        return res
    if f and any(sum(k[0]) + sum(sum(v) for v in k[1]) < f for k in cnt):
        res.append(("sampler-filter-violated", "generate_samples returned a state below the min-photon filter", f, None))
    pv, detail = gof(exp, cnt, nsamples)
    if pv < ALPHA:
        sig = "sampler-gof" + ("-filtered" if f else "")
        if "impossible_outcome" in detail:
            sig = "sampler-impossible-outcome" + ("-filtered" if f else "")
        res.append((sig, "generate_samples does not draw from the model distribution"
                    + (" conditioned on the filter" if f else ""), "p >= 1e-9", json.dumps(detail)))
    if f:
        ophys, _ = src.cache_prob_table(sum(inp), f)
        if abs(ophys - float(km)) > TOL:
            res.append(("sampler-phys_perf", "cached physical performance differs from the kept mass", float(km), ophys))
    return res


# ------------------------------------------------------------------ shrinking
def shrink(case, test):
    """case = (cfg, inp, f); test(case) -> set of signatures. Greedy reduction keeping the first signature."""
    sigs = test(case)
    if not sigs:
        return case
    sig = sorted(sigs)[0]
    changed = True
    while changed:
        changed = False
        cfg, inp, f = case
        cands = []
        for i in range(len(inp)):
            if len(inp) > 1:
                cands.append((cfg, inp[:i] + inp[i + 1:], f))
            if inp[i] > 0:
                cands.append((cfg, inp[:i] + [inp[i] - 1] + inp[i + 1:], f))
        if f:
            cands.append((cfg, inp, f - 1))
        if cfg.t != 1:
            cands.append((Cfg(cfg.px, cfg.g2, cfg.r, cfg.s, 1, cfg.dm), inp, f))
        if cfg.s != 1:
            cands.append((Cfg(cfg.px, cfg.g2, cfg.r, 1, cfg.t, cfg.dm), inp, f))
        if cfg.g2 != 0:
            cands.append((Cfg(cfg.px, 0, 1, cfg.s, cfg.t, cfg.dm), inp, f))
        if cfg.px != 1 and cfg.g2 == 0:
            cands.append((Cfg(1, 0, 1, cfg.s, cfg.t, cfg.dm), inp, f))
        for c in cands:
            try:
                if sig in test(c):
                    case = c
                    changed = True
                    break
            except Exception:
                continue
    return case


def case_dict(cfg, inp=None, f=None, **extra):
    d = {"source": cfg.describe()}
    if inp is not None:
        d["input"] = list(inp)
    if f is not None:
        d["min_detected_photons"] = f
    d.update(extra)
    return d


def report(ctx, results, cfg, inp=None, f=None, retest=None, **extra):
    """results: list of (sig, what, exp, obs). retest: function (cfg, inp, f) -> list of results, for shrinking"""
    for sig, what, exp, obs in results:
        c = (cfg, list(inp) if inp is not None else [], f or 0)
        if retest is not None:
            try:
                c = shrink(c, lambda cc: {r[0] for r in retest(*cc)})
                again = [r for r in retest(*c) if r[0] == sig]
                if again:
                    _, what, exp, obs = again[0]
            except Exception:
                pass
        ctx.fail(sig, what, case_dict(c[0], c[1] if inp is not None else None, c[2] if f is not None else None, **extra),
                 expected=exp, observed=obs)


def guarded(ctx, sigprefix, cfg, fn, *args):
    try:
        return fn(*args)
    except Exception as e:       # an exception of the implementation on an admissible input is a failure
        return [(f"exception-{sigprefix}-{type(e).__name__}", f"{sigprefix} raised {type(e).__name__}: {e}", None, None)]


# ------------------------------------------------------------------ histories on ONE object
# Everything above queries a fresh Source / Processor once.  The streams below keep one object alive and compare
# every step with the model evaluated at the CURRENT parameters, input and filter: the model is a pure function of
# those (theorem C06_answers_depend_on_current_arguments_only), so any dependence on the history is a failure.
PERFECT = None     # set below (needs Cfg)


def cfg_to_json(cfg):
    return None if cfg is None else cfg.describe()


def cfg_from_json(s):
    if s is None:
        return None
    return Cfg(F(s["brightness"]), F(s["g2"]), F(s["sqrt(1-2*px*g2)"]), F(s["sqrt(indistinguishability)"]),
               F(s["transmittance"]), s["g2_distinguishable"])


def op_seed(seed0, op):
    import hashlib
    return int.from_bytes(hashlib.sha256(json.dumps([seed0, op], default=str).encode()).digest()[:4], "big") % (2 ** 31)


def count_samples(smp):
    first, cnt = {}, Counter()
    for x in smp:
        s = str(x)
        if s not in first:
            first[s] = canon_bs(x)
        cnt[first[s]] += 1
    return cnt, first


def nphot(k):
    return sum(k[0]) + sum(sum(v) for v in k[1])


def sample_findings(mdl, cfg, inp, f, smp, nsamples, prefix):
    """compare a list of sampled states with the model distribution of (cfg, inp) conditioned on >= f photons"""
    import perceval as pcvl
    res = []
    if f:
        km, exp = kept_mass(mdl, cfg, inp, f)
        if km == 0:
            return res
    else:
        _, exp = expected_dist(mdl, cfg, inp)
    if len(smp) != nsamples:
        return [(prefix + "-count", "another number of samples was returned", nsamples, len(smp))]
    cnt, first = count_samples(smp)
    if cfg.perfect():
        if list(first) != [str(pcvl.BasicState(inp))]:
            res.append((prefix + "-perfect-source", "a perfect source does not sample the requested state",
                        str(pcvl.BasicState(inp)), str(list(first)[:3])))
        return res
    if f and any(nphot(k) < f for k in cnt):
        res.append((prefix + "-filter-violated", "a sampled state has fewer photons than the CURRENT min-photon filter",
                    f, min(nphot(k) for k in cnt)))
    pv, detail = gof(exp, cnt, nsamples)
    if pv < ALPHA:
        res.append((prefix + "-gof" + ("-filtered" if f else ""),
                    "samples are not drawn from the model distribution at the current parameters"
                    + (" conditioned on the current filter" if f else ""), "p >= 1e-9", json.dumps(detail)))
    return res


def source_history_requests(cfg, ops):
    reqs = []
    for op in ops:
        if op[0] == "dist":
            reqs.append([603, [cfg.tree(), 0, op[1]]])
        elif op[0] == "pd":
            reqs.append([602, [cfg.tree(), 0, op[1]]])
        elif op[0] == "table":
            reqs.append([604, [cfg.tree(), op[1], op[2]]])
        elif op[0] == "sample":
            reqs.append([603, [cfg.tree(), 0, op[1]]])
            if op[2]:
                reqs.append([606, [cfg.tree(), 0, op[1], op[2]]])
                reqs.append([604, [cfg.tree(), sum(op[1]), op[2]]])
    return reqs


def run_source_history(mdl, cfg, ops, nsamples, seed0):
    """ops on ONE Source: ("dist", inp) ("pd", n) ("table", n, f) ("sample", inp, f). Returns [(sig, what, exp, obs, step)]"""
    import perceval as pcvl
    src = cfg.source()
    out = []
    for step, op in enumerate(ops):
        res = []
        try:
            if op[0] == "dist":
                _, exp = expected_dist(mdl, cfg, op[1])
                obs = canon_svd(src.generate_distribution(pcvl.BasicState(op[1]), prob_threshold=0))
                df = None if obs is None else dist_diff(exp, obs)
                if obs is None or df:
                    res.append(("history-source-distribution", "generate_distribution on a used Source differs from the model"
                                + ("" if not df else " at state " + show(df[0])), df and df[1], df and df[2]))
            elif op[0] == "pd":
                o = mdl.get(602, [cfg.tree(), 0, op[1]])
                exp = canon_model([([e[0]], e[1]) for e in o[0]])
                obs = canon_svd(src.probability_distribution(op[1], prob_threshold=0))
                df = None if obs is None else dist_diff(exp, obs)
                if obs is None or df:
                    res.append(("history-source-probability_distribution", "probability_distribution on a used Source differs",
                                df and df[1], df and df[2]))
            elif op[0] == "table":
                o = mdl.get(604, [cfg.tree(), op[1], op[2]])
                phys, zpp = un_q(o[1]), un_q(o[2])
                if phys != 0:
                    ophys, ozpp = src.cache_prob_table(op[1], op[2])
                    if abs(ophys - float(phys)) > TOL or abs(ozpp - float(zpp)) > TOL:
                        res.append(("history-source-cache_prob_table", "cache_prob_table(n, f) on a used Source returns another "
                                    "(physical performance, zero-photon probability) than the table of (n, f)",
                                    str((float(phys), float(zpp))), str((ophys, ozpp))))
                    res += cached_table_findings(mdl, cfg, src, op[1], op[2])
            elif op[0] == "sample":
                inp, f = op[1], op[2]
                if f and kept_mass(mdl, cfg, inp, f)[0] == 0:
                    continue
                pcvl.random_seed(op_seed(seed0, op))
                smp = src.generate_samples(nsamples, pcvl.BasicState(inp), f)
                res += sample_findings(mdl, cfg, inp, f, smp, nsamples, "history-source-sample")
                if f and not cfg.perfect():
                    res += cached_table_findings(mdl, cfg, src, sum(inp), f)
        except Exception as e:
            res.append((f"history-source-exception-{op[0]}-{type(e).__name__}", f"{op[0]} raised {type(e).__name__}: {e}", None, None))
        out += [r + (step,) for r in res]
        if res:
            break
    return out


def cached_table_findings(mdl, cfg, src, n, f):
    """white box (read only): after a filtered call the cached event table must be the table of the CURRENT (n, f)"""
    o = mdl.get(604, [cfg.tree(), n, f])
    exp = {tuple(e[0]): float(un_q(e[1])) for e in o[0]}
    tab = src._prob_table
    if tab is None:
        return []
    if (src._prob_table_n, src._prob_table_filter) != (n, f) or set(tab) != set(exp) or \
            any(abs(tab[k] - exp[k]) > TOL for k in exp):
        return [("history-source-cached-table", "the event table cached on the Source is not the table of the current "
                 "(photon count, filter)", str((n, f)), str((src._prob_table_n, src._prob_table_filter)))]
    return []


def gen_source_history(rng, cfg):
    cap = 4 if cfg.tagged() else 6
    n = rng.rint(2, cap)

    def inp_of(total):
        m = rng.rint(1, 4)
        for _ in range(60):
            s = [rng.rint(0, 3) for _ in range(m)]
            if sum(s) == total:
                return s
        return [1] * total if total <= 4 else [3, total - 3]
    ops = []
    for _ in range(rng.rint(4, 7)):
        k = rng.below(10)
        tot = n if rng.chance(4, 5) else rng.rint(1, cap)       # mostly the SAME photon count: caches keyed on n survive
        if k < 5:
            ops.append(("sample", inp_of(tot), rng.rint(0, tot)))
        elif k < 7:
            ops.append(("table", tot, rng.rint(0, tot + 1)))
        elif k < 9:
            ops.append(("dist", inp_of(tot)))
        else:
            ops.append(("pd", rng.rint(0, 3)))
    return ops


def shrink_ops(ops, sig, test):
    """delete operations while the same signature persists"""
    changed = True
    while changed:
        changed = False
        for i in range(len(ops)):
            cand = ops[:i] + ops[i + 1:]
            try:
                if cand and any(r[0] == sig for r in test(cand)):
                    ops = cand
                    changed = True
                    break
            except Exception:
                continue
    return ops


# ---- Processor histories
NOISE_FIELDS = ["brightness", "indistinguishability", "g2", "g2_distinguishable", "transmittance"]


def noise_values(cfg):
    return {"brightness": float(cfg.px), "indistinguishability": float(cfg.ind), "g2": float(cfg.g2),
            "g2_distinguishable": cfg.dm, "transmittance": float(cfg.t)}


def perfect_cfg():
    return Cfg(1, 0, 1, 1, 1, True)


def proc_history_requests(first_cfg, inp0, ops):
    reqs, cur, inp = [], first_cfg or perfect_cfg(), inp0
    reqs.append([603, [cur.tree(), 0, inp]])
    for op in ops:
        if op[0] in ("new", "mutate"):
            cur = op[1]
        elif op[0] == "none":
            cur = perfect_cfg()
        elif op[0] == "input":
            inp = op[1]
        reqs.append([603, [cur.tree(), 0, inp]])
        if op[0] in ("psample", "ssample") and op[1]:
            reqs.append([606, [cur.tree(), 0, inp, op[1]]])
            reqs.append([604, [cur.tree(), sum(inp), op[1]]])
    return reqs


def run_proc_history(mdl, first_cfg, inp0, ops, nsamples, seed0):
    """ONE Processor (identity circuit). ops: ("new", cfg) a new NoiseModel object; ("mutate", cfg) the user's NoiseModel
    object changed in place with set_value and assigned again; ("reassign",) the same object assigned again unchanged;
    ("none",) noise = None; ("input", inp); ("ssample", f) processor.source.generate_samples; ("psample", f)
    Processor.samples under min_detected_photons_filter(f).  After EVERY op source_distribution, the Source fields and
    the perfect-source identity are compared with the model at the current parameters."""
    import perceval as pcvl
    out = []
    cur, inp = first_cfg or perfect_cfg(), list(inp0)
    nm = pcvl.NoiseModel(**noise_values(first_cfg)) if first_cfg is not None else None
    held = nm                       # the user's NoiseModel object (kept across noise = None)
    held_cfg = first_cfg            # the parameters that object currently carries
    p = pcvl.Processor("CliffordClifford2017", len(inp), noise=nm)
    p.with_input(pcvl.BasicState(inp))
    p.min_detected_photons_filter(0)
    for step, op in enumerate([("init",)] + list(ops)):
        res = []
        try:
            if op[0] == "new":
                cur = held_cfg = op[1]
                held = pcvl.NoiseModel(**noise_values(cur))
                p.noise = held
            elif op[0] == "mutate":
                cur = held_cfg = op[1]
                if held is None:
                    held = pcvl.NoiseModel()
                for name, v in noise_values(cur).items():
                    held.set_value(name, v)
                p.noise = held
            elif op[0] == "reassign":
                if held is not None:
                    cur = held_cfg
                    p.noise = held
            elif op[0] == "none":
                cur = perfect_cfg()
                p.noise = None
            elif op[0] == "input":
                inp = list(op[1])
                p.with_input(pcvl.BasicState(inp))
            # ---- after every step: the processor's source follows the CURRENT parameters
            s = p.source
            obsf = [s._emission_probability, s._multiphoton_component, s._indistinguishability, 1 - s._losses,
                    s._multiphoton_model == "distinguishable"]
            expf = [float(cur.px), float(cur.g2), float(cur.ind), float(cur.t), cur.dm]
            if any(abs(float(a) - float(b)) > 1e-12 for a, b in zip(expf[:4], obsf[:4])) or (expf[4] != obsf[4] and cur.g2 != 0):
                res.append(("history-processor-source-fields", "the Processor's Source does not carry the current noise parameters",
                            str(expf), str(obsf)))
            rep = p.noise
            repf = [rep.brightness, rep.g2, rep.indistinguishability, rep.transmittance]
            if any(abs(float(a) - float(b)) > 1e-12 for a, b in zip([expf[0], expf[1], expf[2], expf[3]], repf)):
                res.append(("history-processor-noise-report", "processor.noise does not report the parameters just set",
                            str(expf), str(repf)))
            _, exp = expected_dist(mdl, cur, inp)
            d = p.source_distribution
            obs = canon_svd(d)
            df = None if obs is None else dist_diff(exp, obs)
            if obs is None or df:
                res.append(("history-processor-source_distribution", "Processor.source_distribution differs from the model at the "
                            "CURRENT noise parameters" + ("" if not df else ", state " + show(df[0])), df and df[1], df and df[2]))
            if cur.perfect():
                keys = [str(k) for k in d.keys()]
                if keys != [str(pcvl.StateVector(pcvl.BasicState(inp)))] or abs(list(d.values())[0] - 1) > 0:
                    res.append(("history-processor-perfect-source", "noise is perfect but the input mixture is not the requested state",
                                str(pcvl.BasicState(inp)), str(keys[:3])))
            if op[0] == "ssample" and sum(inp) >= max(op[1], 1) and cur.t > 0:
                f = op[1]
                if not (f and kept_mass(mdl, cur, inp, f)[0] == 0):
                    pcvl.random_seed(op_seed(seed0, [step, op]))
                    smp = p.source.generate_samples(nsamples, pcvl.BasicState(inp), f)
                    res += sample_findings(mdl, cur, inp, f, smp, nsamples, "history-processor-source-sample")
            if op[0] == "psample" and sum(inp) >= max(op[1], 1) and cur.t > 0:
                f = op[1]
                if not (f and kept_mass(mdl, cur, inp, f)[0] == 0):
                    pcvl.random_seed(op_seed(seed0, [step, op]))
                    p.min_detected_photons_filter(f)
                    r = p.samples(nsamples)
                    p.min_detected_photons_filter(0)
                    res += psample_findings(mdl, cur, inp, f, r, nsamples)
        except Exception as e:
            res.append((f"history-processor-exception-{op[0]}-{type(e).__name__}", f"{op[0]} raised {type(e).__name__}: {e}", None, None))
        out += [r + (step,) for r in res]
        if res:
            break
    return out


def psample_findings(mdl, cfg, inp, f, r, nsamples):
    """Processor.samples on the identity circuit with photon-number-resolving detection: the output photon counts per
    mode follow the input mixture conditioned on the filter; physical_perf is the kept mass."""
    if f:
        km, exp = kept_mass(mdl, cfg, inp, f)
    else:
        km, (_, exp) = F(1), expected_dist(mdl, cfg, inp)
    marg = {}
    for k, pr in exp.items():
        counts = tuple(z + sum(v[i] for v in k[1]) for i, z in enumerate(k[0]))
        marg[counts] = marg.get(counts, F(0)) + pr
    res = []
    smp = r["results"]
    cnt = Counter(tuple(x) for x in smp)
    if f and any(sum(k) < f for k in cnt):
        res.append(("history-processor-samples-filter-violated", "Processor.samples returned a state below the current filter",
                    f, min(sum(k) for k in cnt)))
    if abs(float(r["physical_perf"]) - float(km)) > TOL:
        res.append(("history-processor-samples-physical_perf", "Processor.samples reports a physical performance that is not "
                    "the mass the current input mixture puts on >= filter photons", float(km), float(r["physical_perf"])))
    if len(smp) == nsamples:
        pv, detail = gof(marg, cnt, nsamples)
        if pv < ALPHA:
            res.append(("history-processor-samples-gof", "Processor.samples (identity circuit) does not follow the photon-count "
                        "law of the current input mixture conditioned on the current filter", "p >= 1e-9", json.dumps(detail)))
    else:
        res.append(("history-processor-samples-count", "another number of samples was returned", nsamples, len(smp)))
    return res


def gen_proc_history(rng, pool):
    def pick():
        for _ in range(50):
            c = rng.choice(pool)
            if c.t > 0:
                return c
        return pool[0]
    first = pick() if rng.chance(3, 4) else None
    first_tagged = True
    m = rng.rint(1, 3)

    def an_input():
        for _ in range(60):
            s = [rng.rint(0, 2) for _ in range(m)]
            if 1 <= sum(s) <= 4:
                return s
        return [1] * m
    inp0 = an_input()
    ops = []
    for _ in range(rng.rint(4, 8)):
        k = rng.below(12)
        if k < 3:
            ops.append(("mutate", pick()))
        elif k < 5:
            ops.append(("new", pick()))
        elif k == 5:
            ops.append(("none",))
        elif k == 6:
            ops.append(("reassign",))
        elif k == 7:
            ops.append(("input", an_input()))
        elif k < 10:
            ops.append(("ssample", rng.rint(0, 3)))
        else:
            ops.append(("psample", rng.rint(0, 3)))
    return first, inp0, ops


def ops_to_json(ops):
    return [[op[0]] + [cfg_to_json(x) if isinstance(x, Cfg) else x for x in op[1:]] for op in ops]


def ops_from_json(js):
    return [tuple([o[0]] + [cfg_from_json(x) if isinstance(x, dict) else x for x in o[1:]]) for o in js]


def run_histories(ctx, mdl, cfgs):
    rng = ctx.rng.fork("histories")
    nsamp = ctx.n(4000, 20000)
    # ---- one Source, many calls
    pool = [c for c in cfgs if not c.perfect() and c.t > 0]
    plans = []
    for i in range(ctx.n(45, 600)):
        hr = rng.fork(("sh", i))
        cfg = hr.choice(pool)
        plans.append((cfg, gen_source_history(hr, cfg)))
    mdl.prefetch([r for cfg, ops in plans for r in source_history_requests(cfg, ops)])
    for i, (cfg, ops) in enumerate(plans):
        seed0 = ctx.seed * 7907 + i
        res = run_source_history(mdl, cfg, ops, nsamp, seed0)
        filt = [op[2] for op in ops if op[0] in ("sample", "table") and op[2]]
        ctx.case(["source-history", cfg.key(), ops], len(set(filt)) >= 2, {"source": cfg.describe(), "history": ops_to_json(ops)})
        ctx.count("history.source.ops", len(ops))
        for sig, what, exp, obs, step in res:
            small = shrink_ops(ops[:step + 1], sig, lambda o: run_source_history(mdl, cfg, o, nsamp, seed0))
            again = [r for r in run_source_history(mdl, cfg, small, nsamp, seed0) if r[0] == sig]
            if again:
                _, what, exp, obs, step = again[0]
            ctx.fail(sig, what, {"source": cfg.describe(), "history_on_one_Source": ops_to_json(small), "failing_step": step,
                                 "samples": nsamp, "seed0": seed0}, exp, obs)
    ctx.streams["histories on one Source (distribution / table / sampler, varying input and filter)"] = len(plans)
    # ---- one Processor, noise replaced / mutated in place / None
    pplans = []
    ppool = [c for c in cfgs if c.t > 0]
    for i in range(ctx.n(40, 500)):
        hr = rng.fork(("ph", i))
        pplans.append(gen_proc_history(hr, ppool))
    mdl.prefetch([r for first, inp0, ops in pplans for r in proc_history_requests(first, inp0, ops)])
    npsamp = ctx.n(2000, 10000)
    for i, (first, inp0, ops) in enumerate(pplans):
        seed0 = ctx.seed * 7907 + 100000 + i
        res = run_proc_history(mdl, first, inp0, ops, npsamp, seed0)
        kinds = {op[0] for op in ops}
        ctx.case(["proc-history", cfg_to_json(first), inp0, ops_to_json(ops)], "mutate" in kinds or "none" in kinds,
                 {"first_noise": cfg_to_json(first), "input": inp0, "history": ops_to_json(ops)})
        for k in kinds:
            ctx.count("history.processor." + k)
        for sig, what, exp, obs, step in res:
            small = shrink_ops(list(ops[:max(step, 1)]), sig, lambda o: run_proc_history(mdl, first, inp0, o, npsamp, seed0)) \
                if step > 0 else []
            again = [r for r in run_proc_history(mdl, first, inp0, small, npsamp, seed0) if r[0] == sig]
            if again:
                _, what, exp, obs, step = again[0]
            ctx.fail(sig, what, {"first_noise": cfg_to_json(first), "input": inp0, "history_on_one_Processor": ops_to_json(small),
                                 "failing_step(0=construction)": step, "samples": npsamp, "seed0": seed0}, exp, obs)
    ctx.streams["histories on one Processor (noise new / mutated in place / reassigned / None, input, sampling)"] = len(pplans)


# ------------------------------------------------------------------ main
def run(ctx):
    import perceval as pcvl
    rng = ctx.rng
    mdl = M(ctx)
    cfgs = grid() + [rand_cfg(rng.fork(("cfg", i))) for i in range(ctx.n(90, 1500))]
    # distinct configurations only
    seen, uniq = set(), []
    for c in cfgs:
        k = json.dumps(c.key())
        if k not in seen:
            seen.add(k)
            uniq.append(c)
    cfgs = uniq
    ctx.log(f"{len(cfgs)} distinct source configurations")

    # plan all cases first so that the model is called in a few batches
    plan = []
    for ci, cfg in enumerate(cfgs):
        crng = rng.fork(("in", ci))
        inputs = [rand_input(crng, cfg) for _ in range(2)]
        if ci % 25 == 3:
            inputs.append([2, 1, 0, 3] if cfg.tagged() else [3, 3, 0, 3])
        explicit = [crng.chance(1, 3) for _ in range(5)]
        tables = []
        for _ in range(2):
            n = crng.rint(0, 6)
            tables.append((n, crng.rint(0, n + 1) if crng.chance(2, 3) else 0))
        plan.append((cfg, inputs, explicit, tables))
    reqs = []
    for cfg, inputs, explicit, tables in plan:
        reqs += [[600, cfg.tree()], [601, [cfg.tree(), 0]], [605, cfg.noise_tree(explicit)]]
        reqs += [[602, [cfg.tree(), 0, n]] for n in range(4)]
        reqs += [[603, [cfg.tree(), 0, inp]] for inp in inputs]
        reqs += [[604, [cfg.tree(), n, f]] for n, f in tables]
    mdl.prefetch(reqs)
    ctx.log(f"model evaluated on {len(reqs)} requests")

    n_gen = n_tab = n_proc = 0
    for cfg, inputs, explicit, tables in plan:
        ctx.count("model." + ("distinguishable" if cfg.dm else "indistinguishable"))
        ctx.count("g2>0" if cfg.g2 > 0 else "g2=0")
        ctx.count("lossy" if cfg.t < 1 else "lossless")
        ctx.count("tagged" if cfg.tagged() else "untagged")
        report(ctx, guarded(ctx, "get_probs", cfg, check_probs, mdl, cfg), cfg,
               retest=lambda c, i, f: check_probs(mdl, c))
        report(ctx, guarded(ctx, "one_photon", cfg, check_one_photon, mdl, cfg), cfg,
               retest=lambda c, i, f: check_one_photon(mdl, c))
        ctx.case(["params", cfg.key()], cfg.nontrivial(), case_dict(cfg))
        for n in range(4):
            report(ctx, guarded(ctx, "probability_distribution", cfg, check_prob_dist, mdl, cfg, n), cfg, [n],
                   retest=lambda c, i, f: check_prob_dist(mdl, c, i[0]) if len(i) == 1 else [])
            ctx.case(["pd", cfg.key(), n], cfg.nontrivial() and n >= 1)
        for inp in inputs:
            report(ctx, guarded(ctx, "generate_distribution", cfg, check_generate, mdl, cfg, inp), cfg, inp,
                   retest=lambda c, i, f: check_generate(mdl, c, i))
            ctx.case(["gen", cfg.key(), inp], cfg.nontrivial() and sum(inp) >= 1, case_dict(cfg, inp))
            ctx.count(f"modes{len(inp)}")
            ctx.count(f"photons{sum(inp)}")
            n_gen += 1
        inp = inputs[0]
        report(ctx, guarded(ctx, "source_distribution", cfg, check_processor, mdl, cfg, inp, explicit), cfg, inp,
               retest=lambda c, i, f: check_processor(mdl, c, i, explicit) if i else [], noise_kwargs=cfg.noise_kwargs(explicit))
        ctx.case(["proc", cfg.key(), inp, explicit], cfg.nontrivial() and sum(inp) >= 1)
        n_proc += 1
        for n, f in tables:
            report(ctx, guarded(ctx, "prob_table", cfg, check_table, mdl, cfg, n, f), cfg, [n], f,
                   retest=lambda c, i, ff: check_table(mdl, c, i[0], ff) if len(i) == 1 else [],
                   note="input = [n] stands for _compute_prob_table(n, min_detected_photons)")
            ctx.case(["table", cfg.key(), n, f], cfg.nontrivial() and n >= 1)
            ctx.count("table.filtered" if f else "table.unfiltered")
            n_tab += 1
    ctx.streams["parameters+one-photon law"] = len(plan)
    ctx.streams["probability_distribution(0..3)"] = 4 * len(plan)
    ctx.streams["generate_distribution"] = n_gen
    ctx.streams["Processor.source_distribution+from_noise_model"] = n_proc
    ctx.streams["_compute_prob_table"] = n_tab

    # ------------------------------------------------------------ sampler
    nsamp = ctx.n(20000, 50000)
    nsel = ctx.n(40, 200)
    cand = [p for p in plan if not p[0].perfect() and p[0].t > 0]
    sel = [cand[i] for i in sorted(rng.shuffle(range(len(cand)))[:nsel])]
    perfect = [p for p in plan if p[0].perfect()][:2]
    splan = []
    for si, (cfg, inputs, _, _) in enumerate(sel + perfect):
        srng = rng.fork(("smp", si))
        cap = 5 if cfg.tagged() else 8
        inp = inputs[0] if 1 <= sum(inputs[0]) <= cap else ([1, 2] if srng.chance(1, 2) else [2, 0, 1])
        f = srng.rint(1, sum(inp))
        splan.append((cfg, inp, 0))
        splan.append((cfg, inp, f))
    req2 = []
    for cfg, inp, f in splan:
        req2.append([603, [cfg.tree(), 0, inp]])
        if f:
            req2.append([606, [cfg.tree(), 0, inp, f]])
            req2.append([604, [cfg.tree(), sum(inp), f]])
    mdl.prefetch(req2)
    for si, (cfg, inp, f) in enumerate(splan):
        seed = (ctx.seed * 1000003 + si * 7919 + 17) % (2 ** 31)
        if f:
            for r in check_table_vs_dist(mdl, cfg, inp, f):
                ctx.fail(r[0], r[1], case_dict(cfg, inp, f), r[2], r[3])
        res = guarded(ctx, "generate_samples", cfg, check_sampler, mdl, cfg, inp, f, nsamp, seed)
        # a goodness-of-fit alarm is shrunk with the same seed and sample size
        report(ctx, res, cfg, inp, f, retest=lambda c, i, ff: check_sampler(mdl, c, i, ff, nsamp, seed) if sum(i) >= max(ff, 1) else [],
               samples=nsamp, random_seed=seed)
        ctx.case(["sampler", cfg.key(), inp, f], cfg.nontrivial(), case_dict(cfg, inp, f, samples=nsamp, random_seed=seed))
        ctx.count("sampler.filtered" if f else "sampler.unfiltered")
    ctx.streams["generate_samples goodness-of-fit"] = len(splan)

    # ------------------------------------------------------------ histories on one object
    run_histories(ctx, mdl, cfgs)
    ctx.log("histories done")

    # ------------------------------------------------------------ inadmissible parameters must be rejected, not mis-modelled
    from perceval.components.source import Source
    bad = [dict(emission_probability=0), dict(emission_probability=1.2), dict(losses=1.5), dict(losses=-0.1),
           dict(multiphoton_component=-0.1), dict(multiphoton_component=1.1),
           dict(emission_probability=0.9, multiphoton_component=0.7), dict(multiphoton_model="other")]
    for kw in bad:
        ctx.count("inadmissible")
        try:
            Source(**kw)
            ctx.fail("inadmissible-accepted", "Source accepted parameters outside its documented domain", {"kwargs": kw})
        except (AssertionError, ValueError):
            pass
    ctx.streams["inadmissible parameters rejected"] = len(bad)

    # ------------------------------------------------------------ extraction cross-check
    sample = [(603, [plan[i][0].tree(), 0, [1, 1]]) for i in (0, len(plan) // 2, len(plan) - 1)] + \
             [(604, [plan[-1][0].tree(), 3, 2])]
    a = ctx.model.run(sample)
    b = ctx.model.vm_crosscheck(sample, "c06")
    ctx.count("vm_compute_crosscheck", len(sample))
    if a != b:
        ctx.fail("extraction-vs-vm_compute", "extracted runner and vm_compute disagree", {"n": len(sample)})


def replay(ctx, case):
    """Re-run the checks on a recorded failing case."""
    print(json.dumps(case, indent=1))
    c = case.get("case", {})
    if "history_on_one_Source" in c:
        out = run_source_history(M(ctx), cfg_from_json(c["source"]), ops_from_json(c["history_on_one_Source"]),
                                 c["samples"], c["seed0"])
        print("\n".join("FAIL " + str(r) for r in out) or "no failure reproduced")
        return
    if "history_on_one_Processor" in c:
        out = run_proc_history(M(ctx), cfg_from_json(c["first_noise"]), c["input"],
                               ops_from_json(c["history_on_one_Processor"]), c["samples"], c["seed0"])
        print("\n".join("FAIL " + str(r) for r in out) or "no failure reproduced")
        return
    s = c.get("source")
    if not s:
        return
    cfg = Cfg(F(s["brightness"]), F(s["g2"]), F(s["sqrt(1-2*px*g2)"]), F(s["sqrt(indistinguishability)"]),
              F(s["transmittance"]), s["g2_distinguishable"])
    mdl = M(ctx)
    inp = c.get("input") or [1]
    f = c.get("min_detected_photons") or 0
    out = check_probs(mdl, cfg) + check_one_photon(mdl, cfg) + check_generate(mdl, cfg, inp) + \
        check_table(mdl, cfg, sum(inp), f)
    if "samples" in c:
        out += check_sampler(mdl, cfg, inp, f, c["samples"], c["random_seed"])
    for r in out:
        print("FAIL", r)
    if not out:
        print("no failure reproduced")
