"""C18 — a local job runs once and ends in exactly one truthful final state.

The real LocalJob is driven step by step: the task is owned by the harness and blocks on semaphores after entering,
after every progress report and before leaving, so the controller decides the interleaving of the task's steps with
the caller's actions (status, cancel, get_results, a second execute, set_progress_callback).  Caller actions are
issued by the controller thread (a second thread for a synchronous run) or handed to the worker thread, which
performs them from inside the user's progress callback (or from the task body where no callback is running).
The same event list is run by the extracted Coq model (function 1800); every observation and, after every event,
the private state of the job (read only) are compared.  There is no sleep: every wait is a semaphore with a
watchdog, and an expired watchdog is a *harness* failure (signature harness-...), never a violation of C18.
"""
from __future__ import annotations
import collections
import itertools
import json
import threading

LEVEL = "proof"
RULE = ("schedule space: task = fn entry, r <= 2 progress reports, return | raise Exception | raise BaseException "
        "(<= 4 task steps), interleaved in every possible way with k caller actions drawn from {status, cancel, "
        "get_results, second execute} placed in the r+3 gaps (before execute, after entry, after each progress, after "
        "the end); every schedule with k <= 3 for r <= 1 and k <= 2 for r = 2 (quick) / k <= 4 (thorough) is enumerated for "
        "each of: synchronous run "
        "with actions from a second thread, synchronous run with actions from the progress callback / task body, "
        "asynchronous run with actions from the caller thread, asynchronous run with actions from the worker thread; "
        "x outcome (3) x cooperative / non-cooperative task, with a result mapping function and a user callback; and "
        "for the iterated result form ({'results_list': [...]}, 3 iterations overriding the mapping parameters) r <= 1, "
        "k <= 2 (k <= 3 for r = 0). The mapping function wraps its argument (not idempotent), so every extra "
        "conversion of a dictionary or of an entry is visible as a deeper nesting. "
        "Plus sampled schedules (k <= 6, set_progress_callback, no mapping function, result dict without 'results', "
        "extra worker steps) and an argument stream (positional / keyword / preset / extra positional -> max_samples / "
        "exception shapes: every entry of the failure alphabet (no argument, one string, one non-string (int, tuple, "
        "None, float, bytes, list, another exception), several arguments, OSError, user classes with custom __init__ / "
        "__str__ / swallowed arguments, subclass of KeyError, raise-from, raised-while-handling, assert, empty and "
        "multi-line strings; BaseExceptions and exceptions whose str() raises) x sync/async x issuer x presets x 3 "
        "schedules, the stop message compared with '<type>: <str(e)>' and checked to be a string; "
        "passed twice / unknown / too many / with and without the progress_callback keyword; rejected execute followed "
        "by a valid one). "
        "Non-trivial: at least one caller action falls strictly between execute and the end of the task, or the "
        "arguments are not all positional-and-valid; distinct by (config, program, event list).")
TRUSTED = ["model: coq/Model/LocalJob.v, LocalJobX.v (hand-written from local_job.py, job.py, job_status.py, "
           "check_cancel.py; tied by this correspondence stream)",
           "harness-owned task, callbacks and result mapping function; Python threading.Semaphore"]
ASSUMPTIONS = ["granularity: execute (check, parameter handling, start_run), every JobStatus update, cancel, status and "
               "get_results are atomic steps; pre-emption inside them (two threads racing execute on one job, a reader "
               "between two field updates of stop_run) is below the model and is not exercised",
               "the harness cannot hold the worker between the task's return and the wrapper's final status update, nor "
               "between an accepted execute and the entry into the task: these pairs are atomic in the driver (the "
               "theorems cover the fine-grained schedules)",
               "user progress callbacks return None, {} or {'cancel_requested': False} and do not raise; the result "
               "mapping function does not raise; every entry of a results_list has its 'results' and 'iteration' keys",
               "timestamps (durations) are not compared"]
EXPLANATION = ("The model follows /repo as it is now (after fix commits 5d55599b: status readable during a synchronous "
               "run, and 53f68db6: progress_callback keyword consumed); the pre-repair behaviour is kept in the model as "
               "code_3e543e6e / code_before_92fc55a7 for the historical ..._old_code theorems and is cross-checked here "
               "against its recorded witnesses only.  No open finding: since 92fc55a7 a task ending with a BaseException "
               "or an unprintable exception ends ERROR (the non-Exception is re-raised after ERROR is recorded).")

WATCHDOG = 10.0
PARALLEL = 1
NAMES = {0: "max_samples", 1: "progress_callback"}


class StrFailure(Exception):
    """raised by the __str__ of an unprintable object"""


class Unprintable:
    def __str__(self):
        raise StrFailure("cannot print")
    __repr__ = __str__


class UserError(Exception):                 # user-defined, custom __init__ keeping an attribute, custom __str__
    def __init__(self, code):
        self.code = code

    def __str__(self):
        return f"user error {self.code}"


class UserErrorNoArgs(Exception):           # custom __init__ that does not forward its arguments
    def __init__(self, a, b="b"):
        super().__init__()
        self.a, self.b = a, b


class UserKeyError(KeyError):               # user subclass of a built-in with a special __str__
    pass


class UserStrRaises(Exception):             # an Exception whose own __str__ raises
    def __str__(self):
        raise StrFailure("cannot print")


def _chained(m):
    try:
        raise KeyError(m)
    except KeyError as k:
        e = ValueError(f"outer {m}")
        e.__cause__ = k
        return e


def _context(m):
    try:
        {}[m]
    except KeyError:
        try:
            raise RuntimeError(m)           # raised while handling another exception: __context__ is set
        except RuntimeError as e:
            return e


# the task-failure alphabet ranges over exception SHAPES: (label, maker(m)).  The job must end ERROR with a string
# message "<type name>: <message>" for every one of them.
EXC_SHAPES = [
    ("one string", lambda m: ValueError(f"message {m}")),
    ("no argument", lambda m: RuntimeError()),
    ("one int (failed dict lookup)", lambda m: KeyError(m)),
    ("one string in a KeyError (quoted by str)", lambda m: KeyError(f"k{m}")),
    ("one tuple", lambda m: ValueError((m, "x"))),
    ("one None", lambda m: TypeError(None)),
    ("one float", lambda m: ArithmeticError(m + 0.5)),
    ("another exception as only argument", lambda m: RuntimeError(ZeroDivisionError(f"inner {m}"))),
    ("one bytes", lambda m: ValueError(b"raw %d" % m)),
    ("several arguments", lambda m: ValueError("a", m, None)),
    ("OSError(errno, text)", lambda m: OSError(m, "text")),
    ("user class with attribute and __str__", lambda m: UserError(m)),
    ("user class swallowing its arguments", lambda m: UserErrorNoArgs(m)),
    ("user subclass of KeyError", lambda m: UserKeyError(m)),
    ("raise ... from ...", _chained),
    ("raised while handling another", _context),
    ("empty string", lambda m: ValueError("")),
    ("multi-line non-ASCII string", lambda m: RuntimeError(f"line {m}\nligne \u00e9\u4e2d")),
    ("assert without message", lambda m: AssertionError()),
    ("StopIteration(value)", lambda m: StopIteration(m)),
    ("one list", lambda m: LookupError([m, m])),
]
# what the wrapper does not turn into ERROR (model outcome OEscape): BaseExceptions that are not Exceptions, and
# exceptions whose str() itself raises inside the handler
ESCAPE_SHAPES = [
    ("custom BaseException", lambda m: Escape(f"escape {m}")),
    ("SystemExit", lambda m: SystemExit(f"escape {m}")),
    ("KeyboardInterrupt", lambda m: KeyboardInterrupt()),
    ("GeneratorExit", lambda m: GeneratorExit()),
    ("Exception with an unprintable argument", lambda m: ValueError(Unprintable())),
    ("Exception whose __str__ raises", lambda m: UserStrRaises(m)),
]


def esc_out(ty, m):
    """model outcome of an escape shape: (2, ty, m, reraise); reraise = it is not an Exception"""
    ty %= len(ESCAPE_SHAPES)
    return (2, ty, m, not isinstance(ESCAPE_SHAPES[ty][1](m), Exception))


def expected_messages(out):
    """the acceptable stop messages for the raised shape: '<type>: <str(e)>' (and '<type>: <str(only argument)>');
    '<type>: <unprintable exception>' when str(e) raises"""
    if out[0] == 2:
        e = ESCAPE_SHAPES[out[1] % len(ESCAPE_SHAPES)][1](out[2])
        try:
            return {type(e).__name__ + ": " + str(e)}
        except Exception:
            return {type(e).__name__ + ": <unprintable exception>"}
    e = EXC_SHAPES[out[1] % len(EXC_SHAPES)][1](out[2])
    acc = {type(e).__name__ + ": " + str(e)}
    if len(e.args) == 1:
        acc.add(type(e).__name__ + ": " + str(e.args[0]))
    return acc


class HarnessFailure(Exception):
    pass


class _Abort(BaseException):
    """unwinds a worker whose wait expired (harness failure)"""


class Escape(BaseException):
    """a task exception that is not an Exception"""


def unpack(prog):
    """(steps, out, coop, shape, pay, ppay[, iters]); iters = ((payload, ((key, value|None), ...)), ...) for shape 1"""
    return tuple(prog) if len(prog) == 7 else tuple(prog) + ((),)


def name_of(k):
    return NAMES.get(k, f"n{k}")


def id_of(name):
    for k, v in NAMES.items():
        if v == name:
            return k
    return int(name[1:])


def mapfn(r, **kw):
    return {"conv": r, "kw": dict(kw)}


# ------------------------------------------------------------------ one real run
class Run:
    def __init__(self, cfg, prog, inline):
        from perceval.runtime.local_job import LocalJob
        self.cfg, self.prog, self.inline = cfg, prog, inline
        self.arrived = threading.Semaphore(0)
        self.go = threading.Semaphore(0)
        self.command = None
        self.where = None
        self.positions = collections.deque()
        self.at_gate = False          # controller's view: a worker is blocked at a gate
        self.free_run = False
        self.broken = None
        self.calls = []
        self.cb_log = []
        self.responses = []
        self.unexpected_start = False
        self.expect_start = False
        self.cur = -1
        self.cb_invoked = False
        self.sync_thread = None
        self.sync_outcome = None
        self.inline_result = None
        self.raised = None
        self.cbs = {}
        names, cmd0, mapp0, has_map, ucb0 = cfg
        delta = {"command": {name_of(k): v for k, v in cmd0}, "mapping": {name_of(k): v for k, v in mapp0}}
        self.job = LocalJob(self.task, result_mapping_function=mapfn if has_map else None,
                            delta_parameters=delta, command_param_names=[name_of(k) for k in names])
        if ucb0 is not None:
            self.job.set_progress_callback(self.make_cb(ucb0))

    # ---- worker side
    def gate(self, where):
        if self.free_run:
            return
        while True:
            self.positions.append(where)
            self.arrived.release()
            if not self.go.acquire(timeout=WATCHDOG):
                self.broken = f"worker wait expired at {where}"
                self.free_run = True
                raise _Abort()
            if self.free_run:
                return
            cmd = self.command
            if cmd is None:
                return
            self.inline_result = self.perform(cmd)

    def make_cb(self, c):
        if c not in self.cbs:
            def cb(progress, phase, c=c):
                self.cb_log.append((c, progress, phase))
                self.cb_invoked = True
                self.gate(("p", self.cur, "cb"))
                return [None, {}, {"cancel_requested": False}][c % 3]
            cb.cid = c
            self.cbs[c] = cb
        return self.cbs[c]

    def task(self, **kwargs):
        from perceval.runtime.check_cancel import cancel_requested
        steps, out, coop, shape, pay, ppay, iters = unpack(self.prog)
        self.calls.append(dict(kwargs))
        if not self.expect_start:
            self.unexpected_start = True
            self.free_run = True
        self.expect_start = False
        cb = kwargs.get("progress_callback")
        args = {id_of(k): (0 if callable(v) else ([] if v is None else v)) for k, v in kwargs.items()}
        self.gate(("entered",))
        early = False
        for i, (p, ph) in enumerate(steps):
            self.cb_invoked = False
            self.cur = i
            r = cb(p / 1000, None if ph == 0 else f"phase{ph}")
            asked = cancel_requested(r)
            self.responses.append((r, bool(asked), self.cb_invoked))
            if not self.cb_invoked:
                self.gate(("p", i, "task"))
            if coop and asked:
                early = True
                break
        if not self.free_run:
            self.positions.append(("leaving",))
            self.arrived.release()
        def result(payload):
            if shape == 1:      # the iterated form: one entry per iteration, each with its own 'iteration' dict
                return {"results_list": [{"results": {"payload": ep, "args": dict(args)},
                                          "iteration": {name_of(k): v for k, v in it}} for ep, it in iters],
                        "meta": {"payload": payload, "args": args}}
            return {"results" if shape == 0 else "other": {"payload": payload, "args": args}}
        if early:
            return result(ppay)
        if out[0] == 0:
            return result(pay)
        if out[0] == 1:
            self.raised = EXC_SHAPES[out[1] % len(EXC_SHAPES)][1](out[2])
            raise self.raised
        self.raised = ESCAPE_SHAPES[out[1] % len(ESCAPE_SHAPES)][1](out[2])
        raise self.raised

    # ---- controller side
    def wait_arrival(self):
        if not self.arrived.acquire(timeout=WATCHDOG):
            raise HarnessFailure(f"controller wait expired (last position {self.where}, {self.broken})")
        self.where = self.positions.popleft()
        return self.where

    def release(self, cmd=None):
        self.command = cmd
        self.go.release()
        return self.wait_arrival()

    def sync_body(self, use_call, args, kwargs):
        try:
            r = self.job(*args, **kwargs) if use_call else self.job.execute_sync(*args, **kwargs)
            self.sync_outcome = ("ret", r)
        except BaseException as e:  # noqa
            self.sync_outcome = ("exc", e)
        self.positions.append(("sync-exit",))
        self.arrived.release()

    def issue(self, ev):
        """a caller action, from the worker thread when it is blocked mid-run and the run is 'inline'"""
        if self.inline and self.at_gate:
            self.release(ev)
            return self.inline_result
        return self.perform(ev)

    def perform(self, ev):
        job = self.job
        tag = ev[0]
        try:
            if tag == 1:
                try:
                    s = job.status
                except AttributeError:
                    return [8, [1]]
                flags = (s.waiting, s.running, s.success, s.failed and not s.canceled, s.canceled)
                props = (job.is_waiting, job.is_running, job.is_success, job.is_failed and not job.status.canceled,
                         job.status.canceled)
                want = tuple(i == s.status.value for i in range(5))
                if flags != want or props != want or str(s) != s.status.name or s() != s.status.name \
                        or s.completed != (s.status.value in (2, 3, 4)) or job.is_complete != s.completed:
                    return ["status-flags-inconsistent", flags, props, s.status.name]
                return [8, [0, s.status.value, enc_progress(s.progress), enc_phase(s._running_phase), enc_msg(s.stop_message, self.prog[1])]]
            if tag == 2:
                r = job.cancel()
                return [9] if r is None else ["cancel-returned", repr(r)]
            if tag == 3:
                return [10, self.get()]
            if tag == 5:
                job.set_progress_callback(None if ev[1] == [] else self.make_cb(ev[1]))
                return [9]
            if tag == 4:       # an execute the model predicts to be refused: called directly
                _, is_async, args, kwargs, use_call = ev
                kw = self.kwargs_of(kwargs)
                try:
                    if is_async:
                        job.execute_async(*args, **kw)
                    elif use_call:
                        job(*args, **kw)
                    else:
                        job.execute_sync(*args, **kw)
                    return [11, [0]]
                except AssertionError:
                    return [11, [1]]
                except RuntimeError as e:
                    return [11, [2, enc_perr(e)]]
                except IndexError:
                    return [11, [2, [2]]]
        except _Abort:
            raise
        except Exception as e:
            return ["unexpected-exception", type(e).__name__, str(e)]
        raise HarnessFailure(f"unknown event {ev}")

    def kwargs_of(self, kwargs):
        return {name_of(k): (self.make_cb(v) if k == 1 else v) for k, v in kwargs}

    def get(self):
        try:
            return [0, enc_ores(self.job.get_results())]
        except AttributeError:
            return [2]
        except RuntimeError as e:
            return enc_get_error(e, self.prog[1])

    def start(self, ev):
        """an execute the model predicts to be accepted: the worker proceeds to the first gate"""
        _, is_async, args, kwargs, use_call = ev
        kw = self.kwargs_of(kwargs)
        self.expect_start = True
        if is_async:
            try:
                r = self.job.execute_async(*args, **kw)
            except AssertionError:
                return [[11, [1]]]
            except RuntimeError as e:
                return [[11, [2, enc_perr(e)]]]
            except IndexError:
                return [[11, [2, [2]]]]
            if r is not self.job:
                return [["execute_async-returned", repr(r)]]
        else:
            self.sync_thread = threading.Thread(target=self.sync_body, args=(use_call, args, kw), daemon=True)
            self.sync_thread.start()
        w = self.wait_arrival()
        if w == ("entered",):
            self.at_gate = True
            return [[11, [0]], [1]]
        if w == ("sync-exit",):
            kind, e = self.sync_outcome
            if kind == "exc" and isinstance(e, AssertionError):
                return [[11, [1]]]
            if kind == "exc" and isinstance(e, IndexError):
                return [[11, [2, [2]]]]
            if kind == "exc" and isinstance(e, RuntimeError):
                return [[11, [2, enc_perr(e)]]]
            return [["sync-exit-without-start", repr(self.sync_outcome)]]
        return [["unexpected-position", w]]

    def worker_step(self, expected):
        """let the worker take its next (macro) step; returns the observations in the model's encoding"""
        if not self.at_gate:
            return [[0]]
        nresp = len(self.responses)
        w = self.release(None)
        if w[0] == "p":
            # the response of this progress report is known once the callback has returned; the model's view is
            # compared at the end of the run (responses list); here: position only
            return [[2, "pending", w[1]]]
        if w == ("leaving",):
            self.at_gate = False
            obs = []
            if self.sync_thread is not None:
                w2 = self.wait_arrival()
                if w2 != ("sync-exit",):
                    return [["unexpected-position", w2]]
                self.sync_thread.join(WATCHDOG)
                if self.sync_thread.is_alive():
                    raise HarnessFailure("synchronous thread did not end")
                kind, v = self.sync_outcome
                if kind == "ret":
                    obs.append([7, [0, enc_ores(v)]])
                elif v is self.raised and self.prog[1][0] == 2:
                    obs.append([5])     # the task's own non-Exception came out of execute_sync (re-raised)
                elif isinstance(v, AttributeError):
                    obs.append([7, [2]])
                elif isinstance(v, RuntimeError):
                    obs.append([7, enc_get_error(v, self.prog[1])])
                else:
                    obs.append(["execute_sync-raised", type(v).__name__, str(v)])
            else:
                t = self.job._worker
                t.join(WATCHDOG)
                if t.is_alive():
                    raise HarnessFailure("worker thread did not end")
            return ["left"] + obs
        return [["unexpected-position", w]]

    def cleanup(self):
        self.free_run = True
        if self.at_gate:
            self.go.release()
        t = self.sync_thread or self.job._worker
        if t is not None:
            t.join(WATCHDOG)
            if t.is_alive():
                raise HarnessFailure("cleanup: thread did not end")

    def snapshot(self):
        job = self.job
        s = job._status
        w = job._worker
        d = job._delta_parameters
        ucb = job._user_cb
        return [s._status.value, enc_progress(s._running_progress), enc_phase(s._running_phase), enc_msg(s._stop_message, self.prog[1]),
                int(bool(job._cancel_requested)), 0 if w is None else (1 if w.is_alive() else 2),
                enc_ores(job._results), int(job._result_mapping_function is not None),
                [] if ucb is None else getattr(ucb, "cid", -1),
                enc_kw(d["command"]), enc_kw(d["mapping"]),
                [enc_kw(c) for c in self.calls],
                [[c, enc_progress(p), enc_phase(ph)] for c, p, ph in self.cb_log]]


# ------------------------------------------------------------------ encodings of real values in the model's format
def enc_progress(p):
    q = p * 1000
    return int(q) if q == int(q) else ["non-integer-progress", p]


def enc_phase(ph):
    return 0 if ph is None else int(ph[5:])


def enc_msg(m, out=None):
    if m is None:
        return []
    if not isinstance(m, str):
        return ["message-not-a-string", repr(m)]
    if m == "User has canceled the job":
        return [1]
    if m == "The job thread stopped without reporting":
        return [3]
    if out is not None and out[0] in (1, 2) and m in expected_messages(out):
        return [2, out[1], out[2]]
    return ["unrecognised-message", m]


def enc_kw(d):
    return sorted([id_of(k), ([] if v is None else (0 if callable(v) else v))] for k, v in d.items())


def unwrap(cur):
    """strip the layers added by the (deliberately non-idempotent) mapping function: (inner, depth, outermost kw)"""
    nconv, cargs = 0, []
    while "conv" in cur:
        if nconv == 0:
            cargs = enc_kw(cur["kw"])
        nconv += 1
        cur = cur["conv"]
    return cur, nconv, cargs


def enc_ores(r):
    if r is None:
        return []
    if not isinstance(r, dict):
        return ["not-a-dict", repr(r)]
    if "results" in r:
        shape, cur = 0, r["results"]
    elif "results_list" in r:
        ents = []
        for e in r["results_list"]:
            inner, n, ca = unwrap(e["results"])
            ents.append([inner["payload"], enc_kw(e["iteration"]), n, ca])
        meta = r["meta"]
        # the number of passes over the dictionary is visible on its entries only
        return [[1, meta["payload"], sorted([k, v] for k, v in meta["args"].items()),
                 ents[0][2] if ents else 0, [], ents]]
    elif "other" in r:
        shape, cur = 2, r["other"]
    else:
        return ["unknown-result", repr(r)]
    cur, nconv, cargs = unwrap(cur)
    return [[shape, cur["payload"], sorted([k, v] for k, v in cur["args"].items()), nconv, cargs, []]]


def norm_res(r):
    """a model result in the form enc_ores produces (dictionary orders are not compared)"""
    ents = [[e[0], sorted(e[1]), e[2], sorted(e[3])] for e in r[5]]
    nconv = r[3] if (r[0] != 1 or ents) else 0
    return [r[0], r[1], sorted(r[2]), nconv, sorted(r[4]), ents]


def enc_get_error(e, out=None):
    m = str(e)
    if m == "The job is still running, results are not available yet.":
        return [1]
    if m.startswith("The job failed: "):
        rest = m[len("The job failed: "):]
        return [3, enc_msg(None if rest == "None" else rest, out)]
    if m == "Results are not available":
        return [4]
    return ["unrecognised-error", m]


def enc_perr(e):
    m = str(e)
    if m.startswith("Parameter named ") and m.endswith(" was passed twice (in *args and **kwargs)"):
        return [0, id_of(m[len("Parameter named "):].split(" ")[0])]
    if m.startswith("Unused parameters in user call ("):
        import ast
        return [1, [id_of(k) for k in ast.literal_eval(m[len("Unused parameters in user call ("):-1])]]
    return ["unrecognised-error", m]


def sort_state(st):
    """model state -> comparable with snapshot() (dictionary orders are not compared)"""
    st = list(st[:13])
    st[6] = [norm_res(r) for r in st[6]]
    st[9] = sorted(st[9])
    st[10] = sorted(st[10])
    st[11] = [sorted(c) for c in st[11]]
    return st


def sort_obs(o):
    def fix_g(g):
        if g and g[0] == 0:
            return [0, [norm_res(r) for r in g[1]]]
        return g
    if o[0] in (7, 10):
        return [o[0], fix_g(o[1])]
    return o


# ------------------------------------------------------------------ model request / comparison
def enc_event(ev):
    if ev[0] == 4:
        return [4, ev[1], list(ev[2]), [list(kv) for kv in ev[3]]]
    return list(ev)


def model_request(cfg, prog, events, old_code=False, version=None):
    names, cmd0, mapp0, has_map, ucb0 = cfg
    steps, out, coop, shape, pay, ppay, iters = unpack(prog)
    enc = lambda d: [[k, ([] if v is None else v)] for k, v in d]
    return (1800, [[list(names), enc(cmd0), enc(mapp0), int(has_map), [] if ucb0 is None else ucb0] +
                   ([version] if version else [[1, 1, 1]] if old_code else []),
                   [[list(s) for s in steps], list(out), int(coop), shape, pay, ppay, [[ep, enc(it)] for ep, it in iters]],
                   [enc_event(e) for e in events]])


def execute(cfg, prog, inline, events, mo):
    """Drives the real job along `events`, comparing with the model output `mo`.
    Returns None or (index, signature, what, expected, observed). Raises HarnessFailure."""
    old_hook = threading.excepthook
    threading.excepthook = lambda a: None
    run = Run(cfg, prog, inline)
    try:
        result = None
        model_resps = []
        for i, (ev, (mobs, mst)) in enumerate(zip(events, mo)):
            mobs = [sort_obs(o) for o in mobs]
            for o in mobs:
                if o[0] == 2:
                    model_resps.append(o[1:])
            tag = ev[0]
            if tag == 0:
                real = run.worker_step(mobs)
                if real and real[0] == "left":
                    tail = [o for o in mobs if o[0] == 7 or (o[0] == 5 and run.sync_thread is not None)]
                    okk = mobs and mobs[0][0] in (3, 4, 5) and real[1:] == tail
                    if not okk:
                        result = (i, "worker-end" + sig_suffix(run, mobs), "end of the task: observations differ",
                                  mobs, real)
                elif real and real[0][0] == 2 and real[0][1] == "pending":
                    if not (len(mobs) == 1 and mobs[0][0] == 2):
                        result = (i, "worker-step", "the worker reported progress where the model expects another step",
                                  mobs, real)
                elif real != mobs:
                    result = (i, "worker-step", "worker step differs", mobs, real)
            elif tag == 4 and mobs[0] == [11, [0]]:
                real = run.start(ev)
                if real != mobs:
                    result = (i, "execute-" + sig_exec(ev, real), "execute: accepted by the model", mobs, real)
            else:
                real = [run.issue(ev)]
                real = [sort_obs(o) if isinstance(o[0], int) else o for o in real]
                if real != mobs:
                    kind = {1: "status", 2: "cancel", 3: "get_results", 4: "execute", 5: "set_callback"}[tag]
                    sig = kind + "-" + (sig_exec(ev, real) if tag == 4 else sig_obs(real[0])) + sig_suffix(run, mobs)
                    result = (i, sig, f"{kind}: observation differs from the model", mobs, real)
            if run.broken:
                raise HarnessFailure(run.broken)
            if result is None and run.unexpected_start:
                result = (i, "task-started-unexpectedly", "the task was entered although the model refuses this execute",
                          mobs, len(run.calls))
            if result is None:
                snap = run.snapshot()
                want = sort_state(mst)
                if snap != want:
                    fields = ["status", "progress", "phase", "stop_message", "cancel_requested", "worker", "results",
                              "mapping_pending", "user_cb", "command", "mapping", "calls", "callback_log"]
                    bad = [f for f, a, b in zip(fields, snap, want) if a != b]
                    result = (i, "state-" + "+".join(bad) + sig_suffix(run, mobs),
                              "private state differs from the model after the event", want, snap)
            if result is not None:
                break
        run.cleanup()
        if run.broken:
            raise HarnessFailure(run.broken)
        if result is None:
            enc_r = lambda r: 0 if r is None else (1 if r == {} else (3 if r.get("cancel_requested") else 2))
            real_resps = [[enc_r(r), int(a), int(inv)] for r, a, inv in run.responses]
            n = min(len(real_resps), len(model_resps))
            # responses of progress reports whose callback had not returned when the schedule stopped are not compared
            if real_resps[:n] != model_resps[:n] or len(model_resps) > len(real_resps):
                result = (len(events), "progress-answers", "answers handed to the task differ", model_resps, real_resps)
        return result
    finally:
        threading.excepthook = old_hook
        run.free_run = True


def sig_obs(o):
    if not isinstance(o[0], int):
        return str(o[0])
    if o[0] == 8:
        return "AttributeError" if o[1] == [1] else f"reports-{o[1][1]}"
    if o[0] == 10:
        return {0: "returns", 1: "still-running", 2: "AttributeError", 3: "job-failed", 4: "not-available"}.get(o[1][0], str(o[1][0]))
    return str(o[0])


def sig_exec(ev, real):
    o = real[0] if real else None
    kws = [k for k, _ in ev[3]]
    if 1 in kws and o and o[0] == 11 and o[1][0] == 2:
        return "progress_callback-keyword-rejected"
    if o and isinstance(o[0], int) and o[0] == 11:
        return {0: "accepted", 1: "assert", 2: "rejected"}[o[1][0]]
    return str(o[0]) if o else "none"


def sig_suffix(run, mobs):
    """shape of the situation: synchronous run in progress / task ended with a BaseException"""
    job = run.job
    s = ""
    if run.sync_thread is not None and run.at_gate:
        s += "-during-sync-run"
    if run.prog[1][0] == 2 and run.calls and not run.at_gate:
        s += "-after-BaseException"
    return s


# ------------------------------------------------------------------ schedule generation
ACTIONS = {"s": (1,), "c": (2,), "g": (3,)}


def interleavings(r, k, alphabet):
    """all placements of k actions from `alphabet` into the r+3 gaps of [X, W*(r+1)]"""
    gaps = r + 3
    for pos in itertools.combinations_with_replacement(range(gaps), k):
        for acts in itertools.product(alphabet, repeat=k):
            yield pos, acts


def build(main_exec, r, pos, acts, second_exec):
    seq = []
    by_gap = {}
    for g, a in zip(pos, acts):
        by_gap.setdefault(g, []).append(a)
    backbone = [main_exec] + [(0,)] * (r + 1)
    for g in range(r + 3):
        for a in by_gap.get(g, []):
            seq.append(second_exec if a == "x" else ACTIONS[a])
        if g < len(backbone):
            seq.append(backbone[g])
    return seq


def nontrivial_schedule(events):
    started = False
    ended = False
    nw = 0
    total_w = sum(1 for e in events if e[0] == 0)
    for e in events:
        if e[0] == 4 and not started:
            started = True
        elif e[0] == 0:
            nw += 1
        elif started and nw < total_w:
            return True
    return False


def describe(cfg, prog, inline, events):
    names, cmd0, mapp0, has_map, ucb0 = cfg
    steps, out, coop, shape, pay, ppay, iters = unpack(prog)

    def ev(e):
        if e[0] == 0:
            return "worker-step"
        if e[0] == 4:
            fn = "execute_async" if e[1] else ("__call__" if e[4] else "execute_sync")
            kw = ", ".join(f"{name_of(k)}={'cb%d' % v if k == 1 else v}" for k, v in e[3])
            return f"{fn}({', '.join(map(str, e[2]))}{', ' if e[2] and kw else ''}{kw})"
        if e[0] == 5:
            return f"set_progress_callback({'None' if e[1] == [] else 'cb%d' % e[1]})"
        return {1: "status", 2: "cancel", 3: "get_results"}[e[0]]
    return {"param_names": [name_of(k) for k in names], "preset_command": {name_of(k): v for k, v in cmd0},
            "preset_mapping": {name_of(k): v for k, v in mapp0}, "mapping_function": bool(has_map),
            "callback_at_construction": ucb0, "task": {"progress": [list(s) for s in steps],
            "outcome": ["return", "raise Exception", "raise BaseException"][out[0]],
            "exception": (EXC_SHAPES[out[1] % len(EXC_SHAPES)][0] + f" (m={out[2]})" if out[0] == 1 else
                          ESCAPE_SHAPES[out[1] % len(ESCAPE_SHAPES)][0] if out[0] == 2 else None),
            "cooperative": bool(coop),
            "result_key": {0: "results", 1: "results_list"}.get(shape, "other"),
            "iterations": [{name_of(k): v for k, v in it} for _, it in iters]},
            "actions_issued_by": "worker thread (callback/task body)" if inline else "controller thread",
            "events": [ev(e) for e in events],
            "raw": {"cfg": cfg, "prog": prog, "inline": inline, "events": events}}


def shrink(ctx, cfg, prog, inline, events, sig):
    cur = list(events)
    changed = True
    while changed:
        changed = False
        for i in range(len(cur) - 1, -1, -1):
            cand = cur[:i] + cur[i + 1:]
            if not cand:
                continue
            try:
                mo = ctx.model.run([model_request(cfg, prog, cand)])[0]
                r = execute(cfg, prog, inline, cand, mo)
            except HarnessFailure:
                r = None
            if r is not None and r[1] == sig:
                cur = cand
                changed = True
    return cur


def run_cases(ctx, cases, stream, reported):
    """cases: list of (cfg, prog, inline, events). Independent jobs are driven by several controller threads at once
    (each schedule has its own job, semaphores and threads; the interleaving inside a schedule stays forced)."""
    from concurrent.futures import ThreadPoolExecutor
    reqs = [model_request(c, p, e) for c, p, i, e in cases]
    outs = ctx.model.run(reqs)

    def one(job):
        (cfg, prog, inline, events), mo = job
        try:
            return execute(cfg, prog, inline, events, mo)
        except HarnessFailure as e:
            return e
    old_hook = threading.excepthook
    threading.excepthook = lambda a: None
    try:
        with ThreadPoolExecutor(PARALLEL) as ex:
            results = list(ex.map(one, zip(cases, outs), chunksize=16))
    finally:
        threading.excepthook = old_hook
    for (cfg, prog, inline, events), mo, r in zip(cases, outs, results):
        canon = [cfg, prog, inline, events]
        ctx.case(canon, nontrivial_schedule(events) or stream == "arguments",
                 describe(cfg, prog, inline, events) if len(ctx.samples) < 3 else None)
        ctx.count(f"{stream}.{'async' if any(e[0] == 4 and e[1] for e in events) else 'sync'}."
                  f"{'inline' if inline else 'controller'}")
        ctx.count("outcome." + ["return", "raise", "escape"][prog[1][0]])
        for obs, _ in mo:
            for o in obs:
                if o in ([8, [1]], [10, [2]], [7, [2]]):
                    ctx.count("model+job.AttributeError-from-status")
                if o[0] == 11:
                    ctx.count("execute." + (["accepted", "refused-already-executed"][o[1][0]] if o[1][0] < 2 else
                                            "rejected-" + ["passed-twice", "unused-keyword", "too-many-positional"][o[1][1][0]]))
        if isinstance(r, HarnessFailure):
            ctx.fail("harness-watchdog", f"HARNESS failure (not a violation of C18): {r}",
                     describe(cfg, prog, inline, events))
            continue
        if r is None:
            continue
        idx, sig, what, exp, obs = r
        ctx.count("failing." + sig)
        if sig in reported:
            reported[sig] += 1
            continue
        reported[sig] = 1
        small = shrink(ctx, cfg, prog, inline, events, sig)
        mo2 = ctx.model.run([model_request(cfg, prog, small)])[0]
        try:
            r2 = execute(cfg, prog, inline, small, mo2) or r
        except HarnessFailure:
            r2, small = r, events
        case = describe(cfg, prog, inline, small)
        case["failing_event_index"] = r2[0]
        ctx.fail(sig, r2[2], case, json.dumps(r2[3], default=str), json.dumps(r2[4], default=str))


# the model is faithful to the code; these are the places where the faithful model itself departs from the
# specification (proved as ..._refuted in coq/Props/C18.v).  Each is checked against the real job directly.
def spec_checks(ctx):
    """The specification's answers, asked of the real job on the witnesses of the refuted statements (one open,
    two repaired in /repo: those two now guard against a regression)."""
    std_cfg = ((10,), ((10, None),), (), True, None)
    # 1. status during a synchronous run must say RUNNING (repaired by 5d55599b)
    prog = (((500, 1),), (0,), False, 0, 5, 6)
    events = [(4, 0, (3,), (), False), (1,), (0,), (0,)]
    witness(ctx, "status-AttributeError-during-sync-run", std_cfg, prog, True, events, 1, [8, [0, 1, 0, 0, []]],
            "LocalJob.status / is_running / get_results raise AttributeError ('NoneType' object has no attribute "
            "'is_alive') when queried during a synchronous run instead of reporting RUNNING")
    # 2. a task ending with a BaseException must not be reported successful (repaired by 92fc55a7)
    prog = ((), esc_out(0, 4), False, 0, 4, 6)
    events = [(4, 1, (3,), (), False), (0,), (1,)]
    witness(ctx, "BaseException-task-reported-success", std_cfg, prog, False, events, 2, "status ERROR (3)",
            "a task that ends with a BaseException which is not an Exception (SystemExit, KeyboardInterrupt, ...) "
            "is reported SUCCESS with results None by an asynchronous job (the dead-worker repair in LocalJob.status); "
            "a synchronous job stays RUNNING",
            ok=lambda o: o[0] == 8 and o[1][0] == 0 and o[1][1] == 3)
    # 2b. the same for an Exception that cannot be rendered: str(e) raised inside the wrapper's own handler
    #     (repaired by 92fc55a7)
    prog = ((), esc_out(4, 5), False, 0, 5, 6)
    witness(ctx, "unprintable-exception-task-reported-success", std_cfg, prog, False, events, 2, "status ERROR (3)",
            "a task that raises an Exception whose str() raises (unprintable argument or __str__) makes "
            "_call_fn_safe's own handler fail: an asynchronous job is then reported SUCCESS with results None, a "
            "synchronous job stays RUNNING and the str() failure comes out of execute_sync",
            ok=lambda o: o[0] == 8 and o[1][0] == 0 and o[1][1] == 3)
    # 3. the progress_callback keyword must be accepted and the callback must receive the progress (repaired by 53f68db6)
    prog = (((500, 1),), (0,), False, 0, 5, 6)
    events = [(4, 0, (3,), ((1, 7),), False), (0,), (0,)]
    witness(ctx, "execute-progress_callback-keyword-rejected", std_cfg, prog, False, events, 1,
            "accepted, callback 7 receives (0.5, 'phase1')",
            "execute_sync/execute_async(progress_callback=cb) store the callback but leave the keyword in kwargs, so "
            "_handle_params rejects the call with 'Unused parameters in user call ([\\'progress_callback\\'])'",
            ok=lambda o: o == [(7, 0.5, "phase1")], read=lambda run: list(run.cb_log))


def historical_model_checks(ctx):
    """The pre-repair configuration of the model (code_3e543e6e) still answers as the old code did (recorded
    witnesses of the two repaired defects); the current configuration answers as the specification."""
    std_cfg = ((10,), ((10, None),), (), True, None)
    prog = (((500, 1),), (0,), False, 0, 5, 6)
    ev1 = [(4, 0, (3,), (), False), (1,)]
    ev3 = [(4, 0, (3,), ((1, 7),), False)]
    reqs = [model_request(std_cfg, prog, ev1, True), model_request(std_cfg, prog, ev1, False),
            model_request(std_cfg, prog, ev3, True), model_request(std_cfg, prog, ev3, False)]
    outs = ctx.model.run(reqs)
    got = [outs[0][1][0], outs[1][1][0], outs[2][0][0], outs[3][0][0]]
    want = [[[8, [1]]], [[8, [0, 1, 0, 0, []]]], [[11, [2, [1, [1]]]]], [[11, [0]], [1]]]
    # code before 92fc55a7: a BaseException / an unprintable exception, asynchronous run, then status -> SUCCESS;
    # current code -> ERROR with the exception's type and message
    ev_e = [(4, 1, (3,), (), False), (0,), (1,)]
    pre3 = [0, 0, 1]
    for o in (esc_out(0, 4), esc_out(4, 5)):
        pe = ((), o, False, 0, 5, 6)
        r2 = [model_request(std_cfg, pe, ev_e, version=pre3), model_request(std_cfg, pe, ev_e)]
        o2 = ctx.model.run(r2)
        reqs += r2
        got += [o2[0][2][0], o2[1][2][0]]
        want += [[[8, [0, 2, 1000, 0, []]]], [[8, [0, 3, 0, 0, [2, o[1], o[2]]]]]]
    ctx.count("historical-model-witness", len(want))
    if got != want:
        ctx.fail("model-code-versions", "the two code versions of the model do not answer as recorded",
                 {"requests": "status during sync run / progress_callback keyword, old and current code"},
                 json.dumps(want), json.dumps(got))
    return reqs


def witness(ctx, sig, cfg, prog, inline, events, idx, expected, what, ok=None, read=None):
    run = Run(cfg, prog, inline)
    old_hook = threading.excepthook
    threading.excepthook = lambda a: None
    try:
        obs = None
        for i, ev in enumerate(events):
            if ev[0] == 0:
                o = run.worker_step(None)
            elif ev[0] == 4:
                o = run.start(ev)
            else:
                o = run.issue(ev)
            if i == idx:
                obs = read(run) if read else o
        run.cleanup()
    except HarnessFailure as e:
        ctx.fail("harness-watchdog", f"HARNESS failure (not a violation of C18): {e}", describe(cfg, prog, inline, events))
        return
    finally:
        threading.excepthook = old_hook
        run.free_run = True
    ctx.case(["spec", sig], True)
    ctx.count("spec-witness")
    good = ok(obs) if ok else obs == expected
    if not good:
        ctx.fail(sig, what, describe(cfg, prog, inline, events), json.dumps(expected), json.dumps(obs, default=str))


def rand_iters(g):
    """0-3 iterations; each overrides some mapping parameters (possibly with None) and may carry foreign keys"""
    out = []
    for j in range(g.below(4)):
        it = tuple((k, g.choice([None, 80 + g.below(9)])) for k in (0, 20, 21, 22) if g.below(3) == 0)
        out.append((200 + j, it))
    return tuple(out)


def quiet_logger():
    try:
        from perceval.utils.logging import get_logger, channel, level
        for ch in (channel.user, channel.general, channel.resources):
            get_logger().set_level(level.off, ch)
    except Exception:
        pass


def run(ctx):
    quiet_logger()
    rng = ctx.rng
    reported = {}
    kmax = 3 if ctx.quick() else 4

    # ---------------------------------------------------------------- exhaustive bounded schedules
    cases = []
    cfg = ((10,), ((10, None),), ((20, None),), True, 7)
    for is_async in (0, 1):
        for inline in (False, True):
            for out in ((0,), (1, 2, 3), esc_out(2 * int(inline) + is_async, 4)):   # return / KeyError(3) / a BaseException
                for coop in (False, True):
                    if coop and out[0] != 0:
                        continue      # a cooperative task differs only by its early return
                    for r in (0, 1, 2):
                        steps = tuple((250 * (j + 1), j + 1) for j in range(r))
                        prog = (steps, out, coop, 0, 5, 6)
                        main = (4, is_async, (3,), (), False)
                        second = (4, is_async, (3,), (), False)
                        for k in range((kmax if r <= 1 or not ctx.quick() else 2) + 1):
                            for pos, acts in interleavings(r, k, "scgx"):
                                cases.append((cfg, prog, inline, build(main, r, pos, acts, second)))
    # the iterated result form ('results_list' with per-iteration overrides of the mapping parameters): every
    # placement of k <= 2 actions (k <= 3 for r = 0), the same four ways of running
    cfg_l = ((10,), ((10, None),), ((20, None), (21, 5)), True, 7)
    iters = ((11, ((20, 9), (22, 1))), (12, ()), (13, ((21, None),)))
    for is_async in (0, 1):
        for inline in (False, True):
            for r in (0, 1):
                steps = tuple((250 * (j + 1), j + 1) for j in range(r))
                prog = (steps, (0,), False, 1, 5, 6, iters)
                main = (4, is_async, (3,), (), False)
                for k in range((3 if r == 0 or not ctx.quick() else 2) + 1):
                    for pos, acts in interleavings(r, k, "scgx"):
                        cases.append((cfg_l, prog, inline, build(main, r, pos, acts, main)))
    ctx.log(f"exhaustive schedules: {len(cases)}")
    run_cases(ctx, cases, "exhaustive", reported)
    ctx.streams["exhaustive-schedules"] = len(cases)

    # ---------------------------------------------------------------- sampled schedules (wider alphabet and configs)
    n = ctx.n(1500, 40000)
    cases = []
    for i in range(n):
        g = rng.fork(("s", i))
        is_async = g.below(2)
        r = g.below(4)
        steps = tuple((g.choice([0, 125, 250, 500, 750, 1000]), g.below(4)) for _ in range(r))
        out = g.choice([(0,), (0,), (1, g.below(len(EXC_SHAPES)), g.below(50)), esc_out(g.below(len(ESCAPE_SHAPES)), g.below(50))])
        shape = g.choice([0, 0, 1, 1, 2])
        prog = (steps, out, bool(g.below(2)), shape, g.below(100), 100 + g.below(100), rand_iters(g) if shape == 1 else ())
        cfg = ((10, 11), ((10, None), (11, 4 if g.below(2) else None)), ((20, None),) if g.below(2) else (),
               bool(g.below(3)), g.choice([None, 6, 7, 8]))
        main_kw = ((11, 9),) if cfg[1][1][1] is None and g.below(2) else ()
        if g.below(4) == 0:
            main_kw = main_kw + ((1, g.choice([6, 7, 8])),)      # progress_callback=cb
        main = (4, is_async, (3,) if g.below(2) else (), main_kw, bool(g.below(2)))
        k = g.below(7)
        backbone = [main] + [(0,)] * (r + 1 + g.below(3))
        acts = []
        for _ in range(k):
            a = g.choice(["s", "c", "g", "x", "x2", "cb", "s", "g"])
            if a in ACTIONS:
                acts.append(ACTIONS[a])
            elif a == "x":
                acts.append(main)
            elif a == "x2":
                acts.append((4, 1 - is_async, (3,), (), False))
            else:
                acts.append((5, g.choice([[], 6, 7, 8])))
        pos = sorted(g.below(len(backbone) + 1) for _ in range(k))
        ev = []
        for gi in range(len(backbone) + 1):
            ev += [a for p, a in zip(pos, acts) if p == gi]
            if gi < len(backbone):
                ev.append(backbone[gi])
        cases.append((cfg, prog, bool(g.below(2)), ev))
    run_cases(ctx, cases, "sampled", reported)
    ctx.streams["sampled-schedules"] = len(cases)

    # ---------------------------------------------------------------- arguments
    cases = []
    n = ctx.n(600, 10000)
    for i in range(n):
        g = rng.fork(("a", i))
        nn = g.below(4)
        names = tuple(range(10, 10 + nn))
        cmd0 = []
        for k in list(names) + [14]:
            if g.below(3):
                cmd0.append((k, None if g.below(3) else 40 + g.below(5)))
        mapp0 = []
        for k in (0, 20, 21):
            if g.below(2):
                mapp0.append((k, None if g.below(3) else 50 + g.below(5)))
        cfg = (names, tuple(cmd0), tuple(mapp0), bool(g.below(2)), g.choice([None, 7]))

        def call(valid):
            npos = g.below(nn + 2) if valid else g.below(nn + 4)
            args = tuple(60 + j for j in range(npos))
            kws = []
            pool = [k for k, v in cmd0 if v is None] + [k for k, v in mapp0 if v is None]
            if not valid:
                pool += [k for k, v in cmd0] + list(names) + [30, 31] + ([1] if g.below(3) == 0 else [])
            for k in pool:
                if g.below(2) and k not in [kk for kk, _ in kws]:
                    if valid and k in names[:npos]:
                        continue
                    kws.append((k, 7 if k == 1 else 70 + g.below(9)))
            if valid and g.below(4) == 0:
                kws.append((1, g.choice([6, 7, 8])))      # progress_callback=cb
            return args, tuple(g.shuffle(kws))
        is_async = g.below(2)
        ev = []
        if g.below(2):
            a, kws = call(False)
            ev.append((4, is_async, a, kws, bool(g.below(2))))
            if g.below(2):
                ev.append((1,))
        a, kws = call(g.below(4) != 0)
        ev.append((4, is_async, a, kws, bool(g.below(2))))
        ev += [(0,), (1,), (0,), (3,), (3,)]
        shape = g.choice([0, 0, 1])
        prog = (((500, 1),), g.choice([(0,), (0,), (1, g.below(len(EXC_SHAPES)), 1)]), False, shape, g.below(50), 99,
                rand_iters(g) if shape == 1 else ())
        cases.append((cfg, prog, bool(g.below(2)), ev))
    run_cases(ctx, cases, "arguments", reported)
    ctx.streams["arguments"] = len(cases)

    # ---------------------------------------------------------------- exception shapes
    # every shape of the failure alphabet x sync/async x issuer x with/without presets x three schedules: the job
    # must end ERROR with a string message, refuse results, not stay RUNNING; execute_sync must end as the model says
    cases = []
    for ty in range(len(EXC_SHAPES) + len(ESCAPE_SHAPES)):
        out = (1, ty, 3 + ty) if ty < len(EXC_SHAPES) else esc_out(ty - len(EXC_SHAPES), 3 + ty)
        pay = 5
        for is_async in (0, 1):
            for inline in (False, True):
                for preset in (False, True):
                    cfg = ((10,), ((10, None), (14, 44)) if preset else (), ((20, None),) if preset else (),
                           preset, 7 if preset else None)
                    main = (4, is_async, (3,), (), bool(inline and not is_async))
                    prog = (((500, 1),), out, False, 0, pay, 6)
                    for sched in ([main, (0,), (1,), (0,), (1,), (3,), (3,), (0,), (1,)],
                                  [main, (0,), (2,), (0,), (3,), (1,)],
                                  [main, (0,), (0,), main, (1,), (3,)]):
                        cases.append((cfg, prog, inline, sched))
    run_cases(ctx, cases, "exception-shapes", reported)
    ctx.streams["exception-shapes"] = len(cases)

    # ---------------------------------------------------------------- the specification on the refuted statements
    spec_checks(ctx)
    ctx.streams["specification-witnesses"] = 4
    hist_reqs = historical_model_checks(ctx)
    for sig, cnt in sorted(reported.items()):
        ctx.notes.append(f"{sig}: {cnt} case(s)")
    ctx.exhaustive = True

    # extraction vs vm_compute
    sample = [model_request(c, p, e) for c, p, i, e in cases[:3]] + hist_reqs
    a = ctx.model.run(sample)
    b = ctx.model.vm_crosscheck(sample, "c18")
    ctx.count("vm_compute_crosscheck", len(sample))
    if a != b:
        ctx.fail("extraction-vs-vm_compute", "extracted runner and vm_compute disagree", {"n": len(sample)})


def replay(ctx, case):
    quiet_logger()
    raw = case.get("case", {}).get("raw")
    print(json.dumps({k: v for k, v in case.items() if k != "case"}, indent=1, default=str))
    if not raw:
        return
    tup = lambda x: tuple(tup(y) for y in x) if isinstance(x, list) else x
    cfg, prog, inline, events = tup(raw["cfg"]), tup(raw["prog"]), raw["inline"], [tup(e) for e in raw["events"]]
    events = [e if e[0] != 5 else (5, list(e[1]) if isinstance(e[1], tuple) else e[1]) for e in events]
    mo = ctx.model.run([model_request(cfg, prog, events)])[0]
    print(json.dumps(describe(cfg, prog, inline, events)["events"]))
    print("result:", execute(cfg, prog, inline, events, mo))
