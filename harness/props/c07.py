"""C07 — a loss channel acts as independent photon loss at the point where it is placed."""
from __future__ import annotations
import json
import math
from fractions import Fraction

from ..common import QI, PYTH, un_q, un_mat, mat_close
from .. import gen

LEVEL = "proof"
RULE = ("interleavings of unitary components (BS 3 conventions, PS, PERM, exact blocks) and 1-4 loss channels on "
        "interior and edge modes, m <= 4, n <= 3, losses in {0, 1, (b/c)^2 for Pythagorean triples} so that "
        "sqrt(loss) and sqrt(1-loss) are rational; Processor.probs(precision=0) with filter 0, the circuit built by "
        "LossSimulator (white-box matrix), leading-loss programs against independent binomial thinning of the "
        "input, and DensityMatrix.apply_loss on Fock inputs; all against the extracted model (enlarged lossless "
        "circuit with one fresh vacuum mode per channel, traced out). Non-trivial: >= 2 channels, one on an interior "
        "mode, with a component between them; distinct by (components, input).")
TRUSTED = ["model: coq/Model/Loss.v, LossX.v; amplitudes = permanent specification (C02)"]
ASSUMPTIONS = ["'each photon is removed independently at that point' is proved as a Kraus identity on amplitudes for one "
               "channel between two arbitrary blocks (Props/C07ext.v); the leading-channel case is additionally compared "
               "exactly with binomial thinning of the input, model against model",
               "tolerance 1e-9"]


def rand_loss(rng):
    k = rng.below(8)
    if k == 0:
        return (Fraction(1), Fraction(0))        # loss 0
    if k == 1:
        return (Fraction(0), Fraction(1))        # loss 1
    a, b, c = rng.choice(PYTH[:8])
    if rng.chance(1, 2):
        a, b = b, a
    return (Fraction(a, c), Fraction(b, c))      # (cos, sin): loss = sin^2


def run(ctx):
    import perceval as pcvl
    import numpy as np
    from perceval.components import LC
    from perceval.simulators import Simulator, LossSimulator
    from perceval.utils import DensityMatrix
    rng = ctx.rng
    N = ctx.n(300, 4000)
    cases = []
    for i in range(N):
        r = rng.fork(i)
        m = r.rint(1, 4)
        nlc = r.rint(1, 4 if m <= 3 else 3)
        ncomp = r.rint(0, 4)
        slots = ["U"] * ncomp + ["L"] * nlc
        slots = r.shuffle(slots)
        if r.chance(1, 5):
            slots = ["L"] * nlc + ["U"] * ncomp      # leading losses: also checked against thinning
        comps = []
        for sl in slots:
            if sl == "U":
                lf = gen.rand_leaf(r, m)
                comps.append(("U", r.rint(0, m - lf.k), lf))
            else:
                comps.append(("L", r.rint(0, m - 1), rand_loss(r)))
        n = r.rint(0, 3 if m + nlc <= 6 else 2)
        s = gen.rand_state(r, m, n)
        cases.append((m, comps, s))
    reqs = []
    for m, comps, s in cases:
        enc = [[0, off, lf.k, lf.U] if k == "U" else [1, off, QI(lf[0]), QI(lf[1])] for k, off, lf in comps]
        reqs.append((70, [m, enc, s]))
    outs = ctx.model.run(reqs)
    for (m, comps, s), out in zip(cases, outs):
        desc = {"m": m, "input": s,
                "components": [f"add({off}, {lf.describe()})" if k == "U" else f"add({off}, LC({float(lf[1] ** 2)!r}))"
                               for k, off, lf in comps]}
        lcs = [i for i, c in enumerate(comps) if c[0] == "L"]
        between = len(lcs) >= 2 and any(comps[j][0] == "U" for j in range(lcs[0], lcs[-1]))
        interior = any(0 < comps[i][1] < m - 1 or (m <= 2 and comps[i][1] < m - 1) for i in lcs)
        ctx.case(["loss", str(desc)], len(lcs) >= 2 and between and (interior or m <= 2), desc)
        ctx.count("lc.%d" % len(lcs))
        ctx.count("m.%d" % m)
        if un_q(out[0]) != 1:
            ctx.fail("model-mass", "model distribution over the original modes does not have mass 1", desc, 1, str(un_q(out[0])))
            continue
        exp = {tuple(e[0]): float(un_q(e[1])) for e in out[1]}
        try:
            p = pcvl.Processor("SLOS", m)
            for k, off, lf in comps:
                p.add(off, lf.build() if k == "U" else LC(float(lf[1] ** 2)))
            p.min_detected_photons_filter(0)
            p.with_input(pcvl.BasicState(s))
            res = p.probs(precision=0)
            got = {tuple(k): float(v) for k, v in res["results"].items()}
            if abs(float(res["physical_perf"]) - 1) > 1e-9:
                ctx.fail("loss-physical_perf", "physical performance differs from 1 with filter 0", desc, 1, res["physical_perf"])
            if any(len(k) != m for k in got):
                ctx.fail("loss-modes", "result states do not have the original number of modes", desc, m, str(list(got)[:3]))
            elif not same(exp, got):
                ctx.fail("loss-distribution", "Processor.probs differs from the enlarged lossless circuit traced over the fresh modes",
                         desc, str(sorted(exp.items())), str(sorted(got.items())))
            if abs(sum(got.values()) - 1) > 1e-9:
                ctx.fail("loss-normalisation", "result is not normalised", desc, 1, sum(got.values()))
            # white box: the circuit LossSimulator builds
            ls = LossSimulator(Simulator(pcvl.SLOSBackend()))
            circ = ls._prepare_circuit(p.components, m)
            M = out[4]
            if circ.m != M:
                ctx.fail("loss-expanded-size", "expanded circuit size differs from m + number of channels", desc, M, circ.m)
            else:
                U = [[complex(x) for x in row] for row in np.array(circ.compute_unitary()).tolist()]
                if not mat_close(U, un_mat(out[2])):
                    ctx.fail("loss-expanded-matrix", "matrix of the circuit built by LossSimulator differs from the model of it", desc)
                if not mat_close(U, un_mat(out[3])):
                    ctx.fail("loss-enlarged-matrix", "matrix of the circuit built by LossSimulator differs from the enlarged lossless circuit", desc)
        except Exception as e:
            ctx.fail(f"exception-{type(e).__name__}", f"raised {type(e).__name__}: {e}", desc)
    ctx.streams["lossy processors"] = len(cases)

    # ---- reused processors: the loss values are parameters changed in place between queries
    nre = ctx.n(60, 600)
    re_cases = []
    for i in range(nre):
        r = rng.fork(("reuse", i))
        m = r.rint(1, 3)
        nlc = r.rint(1, 2)
        ncomp = r.rint(0, 3)
        slots = r.shuffle(["U"] * ncomp + ["L"] * nlc)
        comps = []
        for sl in slots:
            if sl == "U":
                lf = gen.rand_leaf(r, m)
                comps.append(("U", r.rint(0, m - lf.k), lf))
            else:
                comps.append(("L", r.rint(0, m - 1), None))
        nq = r.rint(2, 3)
        rounds = [[rand_loss(r) for _ in range(nlc)] for _ in range(nq)]
        s = gen.rand_state(r, m, r.rint(1, 2))
        re_cases.append((m, comps, rounds, s))
    reqs, where = [], []
    for ci, (m, comps, rounds, s) in enumerate(re_cases):
        for qi, vals in enumerate(rounds):
            it = iter(vals)
            enc = []
            for k, off, lf in comps:
                if k == "U":
                    enc.append([0, off, lf.k, lf.U])
                else:
                    cs = next(it)
                    enc.append([1, off, QI(cs[0]), QI(cs[1])])
            reqs.append((70, [m, enc, s]))
            where.append((ci, qi))
    outs_re = ctx.model.run(reqs)
    expected = {}
    for (ci, qi), out in zip(where, outs_re):
        expected[(ci, qi)] = {tuple(e[0]): float(un_q(e[1])) for e in out[1]}
    for ci, (m, comps, rounds, s) in enumerate(re_cases):
        desc = {"m": m, "input": s, "loss values per query": [[float(cs[1] ** 2) for cs in vals] for vals in rounds],
                "components": [f"add({off}, {lf.describe()})" if k == "U" else f"add({off}, LC(P))" for k, off, lf in comps]}
        changed = any(rounds[q] != rounds[q + 1] for q in range(len(rounds) - 1))
        ctx.case(["reuse", str(desc)], changed, desc)
        ctx.count("reuse")
        try:
            p = pcvl.Processor("SLOS", m)
            params = []
            for k, off, lf in comps:
                if k == "U":
                    p.add(off, lf.build())
                else:
                    prm = pcvl.P(f"loss{len(params)}")
                    params.append(prm)
                    p.add(off, LC(prm))
            p.min_detected_photons_filter(0)
            p.with_input(pcvl.BasicState(s))
            ls = LossSimulator(Simulator(pcvl.SLOSBackend()))
            for qi, vals in enumerate(rounds):
                for prm, cs in zip(params, vals):
                    prm.set_value(float(cs[1] ** 2))
                got = {tuple(k): float(v) for k, v in p.probs(precision=0)["results"].items()}
                if not same(expected[(ci, qi)], got):
                    ctx.fail("loss-reused-processor", "a processor queried again after its loss values were changed in place "
                             f"does not follow the current values (query {qi + 1})", desc,
                             str(sorted(expected[(ci, qi)].items())), str(sorted(got.items())))
                    break
                ls.set_min_detected_photons_filter(0)
                ls.set_circuit(p.components, m)
                got2 = {tuple(k): float(v) for k, v in ls.probs(pcvl.BasicState(s)).items()}
                if not same(expected[(ci, qi)], got2):
                    ctx.fail("loss-reused-simulator", "a LossSimulator given the same components again after their loss values "
                             f"were changed in place does not follow the current values (query {qi + 1})", desc,
                             str(sorted(expected[(ci, qi)].items())), str(sorted(got2.items())))
                    break
        except Exception as e:
            ctx.fail(f"exception-reuse-{type(e).__name__}", f"raised {type(e).__name__}: {e}", desc)
    ctx.streams["reused processors (loss parameters changed in place)"] = len(re_cases)

    # ---- inputs whose photons carry distinguishability tags, through every entry point
    # (groups of differently tagged photons evolve and are lost independently: the expected distribution is the
    #  convolution of the per-group distributions of the enlarged lossless circuit, each from the model)
    nan_ = ctx.n(40, 400)
    an_cases = []
    for i in range(nan_):
        r = rng.fork(("annot", i))
        m = r.rint(2, 3)
        nlc = r.rint(1, 2)
        ncomp = r.rint(1, 3)
        slots = r.shuffle(["U"] * ncomp + ["L"] * nlc)
        comps = []
        for sl in slots:
            if sl == "U":
                lf = gen.rand_leaf(r, m)
                comps.append(("U", r.rint(0, m - lf.k), lf))
            else:
                comps.append(("L", r.rint(0, m - 1), rand_loss(r)))
        ngroups = r.rint(2, 3)
        groups = []
        for g in range(ngroups):
            st = [0] * m
            for _ in range(1 if (g > 0 or r.chance(2, 3)) else 2):
                st[r.below(m)] += 1
            groups.append(st)
        an_cases.append((m, comps, groups))
    reqs, where = [], []
    for ci, (m, comps, groups) in enumerate(an_cases):
        enc = [[0, off, lf.k, lf.U] if k == "U" else [1, off, QI(lf[0]), QI(lf[1])] for k, off, lf in comps]
        for gi, g in enumerate(groups):
            reqs.append((70, [m, enc, g]))
            where.append((ci, gi))
    outs_an = ctx.model.run(reqs)
    per_group = {}
    for (ci, gi), out in zip(where, outs_an):
        per_group[(ci, gi)] = {tuple(e[0]): float(un_q(e[1])) for e in out[1]}
    for ci, (m, comps, groups) in enumerate(an_cases):
        exp = {tuple([0] * m): 1.0}
        for gi in range(len(groups)):
            nxt = {}
            for a, pa in exp.items():
                for b_, pb in per_group[(ci, gi)].items():
                    k_ = tuple(x + y for x, y in zip(a, b_))
                    nxt[k_] = nxt.get(k_, 0.0) + pa * pb
            exp = nxt
        text = "|" + ",".join("".join("{_:%d}" % gi for gi, g in enumerate(groups) for _ in range(g[mode])) or "0"
                              for mode in range(m)) + ">"
        desc = {"m": m, "input": text,
                "components": [f"add({off}, {lf.describe()})" if k == "U" else f"add({off}, LC({float(lf[1] ** 2)!r}))"
                               for k, off, lf in comps]}
        interfere = sum(1 for mode in range(m) if sum(g[mode] for g in groups) > 0) >= 2
        ctx.case(["annotated", str(desc)], interfere, desc)
        ctx.count("annotated-input")
        try:
            state = pcvl.BasicState(text)
            built = [(off, lf.build() if k == "U" else LC(float(lf[1] ** 2))) for k, off, lf in comps]
            p = pcvl.Processor("SLOS", m)
            for off, c_ in built:
                p.add(off, c_)
            p.min_detected_photons_filter(0)
            # (a) the simulator-level entry point with a Fock state
            ls = LossSimulator(Simulator(pcvl.SLOSBackend()))
            ls.set_min_detected_photons_filter(0)
            ls.set_precision(0)
            ls.set_circuit(p.components, m)
            got = {tuple(k): float(v) for k, v in ls.probs(state).items()}
            if not same(exp, got):
                ctx.fail("loss-annotated-simulator-probs", "LossSimulator.probs(BasicState) with tagged photons differs from the "
                         "convolution of the groups", desc, str(sorted(exp.items())), str(sorted(got.items())))
                continue
            # (b) the same through probs_svd
            res = ls.probs_svd(pcvl.SVDistribution(state))
            got = {tuple(k): float(v) for k, v in res["results"].items()}
            if not same(exp, got):
                ctx.fail("loss-annotated-simulator-probs_svd", "LossSimulator.probs_svd with tagged photons differs from the "
                         "convolution of the groups", desc, str(sorted(exp.items())), str(sorted(got.items())))
                continue
            # (c) the processor (a tagged state is given as a one-member mixture: with_input(BasicState) would hand the
            #     state to the source model, which assigns its own tags)
            p.with_input(pcvl.SVDistribution(state))
            got = {tuple(k): float(v) for k, v in p.probs(precision=0)["results"].items()}
            if not same(exp, got):
                ctx.fail("loss-annotated-processor", "Processor.probs with tagged photons differs from the convolution of the groups",
                         desc, str(sorted(exp.items())), str(sorted(got.items())))
        except Exception as e:
            ctx.fail(f"exception-annotated-{type(e).__name__}", f"raised {type(e).__name__}: {e}", desc)
    ctx.streams["tagged inputs (simulator probs / probs_svd / processor)"] = len(an_cases)

    # ---- leading losses == independent thinning of the input (model vs model, and implementation)
    thin_cases = [(m, comps, s) for m, comps, s in cases
                  if all(c[0] == "L" for c in comps[:sum(1 for c in comps if c[0] == "L")])]
    reqs = []
    for m, comps, s in thin_cases:
        U = gen.qmat_id(m)
        keep = [Fraction(1)] * m
        for k, off, lf in comps:
            if k == "U":
                U = gen.qmat_mul(gen.qmat_embed(m, off, lf.U), U)
            else:
                keep[off] *= lf[0] ** 2
        reqs.append((71, [m, U, s, [1 - x for x in keep]]))
    outs2 = ctx.model.run(reqs)
    for (m, comps, s), o2 in zip(thin_cases, outs2):
        idx = cases.index((m, comps, s))
        o1 = outs[idx]
        ctx.count("thinning-vs-enlarged")
        d1 = {tuple(e[0]): un_q(e[1]) for e in o1[1] if un_q(e[1]) != 0}
        d2 = {tuple(e[0]): un_q(e[1]) for e in o2[1] if un_q(e[1]) != 0}
        if d1 != d2:
            ctx.fail("model-thinning", "enlarged-circuit model and independent-thinning model differ (exact)",
                     {"m": m, "input": s}, str(d2), str(d1))
    ctx.streams["leading-loss thinning (exact, model vs model)"] = len(thin_cases)

    # ---- DensityMatrix.apply_loss on Fock inputs
    ndm = ctx.n(80, 800)
    dm_cases = []
    for i in range(ndm):
        r = rng.fork(("dm", i))
        m = r.rint(1, 3)
        s = gen.rand_state(r, m, r.rint(1, 3))
        mode = r.below(m)
        cs = rand_loss(r)
        dm_cases.append((m, s, mode, cs))
    outs3 = ctx.model.run([(70, [m, [[1, mode, QI(cs[0]), QI(cs[1])]], s]) for m, s, mode, cs in dm_cases])
    for (m, s, mode, cs), out in zip(dm_cases, outs3):
        desc = {"input": s, "mode": mode, "loss": float(cs[1] ** 2)}
        ctx.case(["dm", s, mode, str(cs)], s[mode] >= 1 and 0 < cs[1] < 1, desc)
        ctx.count("density-matrix")
        exp = {tuple(e[0]): float(un_q(e[1])) for e in out[1]}
        try:
            dm = DensityMatrix.from_svd(pcvl.BasicState(s))
            dm.apply_loss([mode], float(cs[1] ** 2))
            diag = np.real(dm.mat.diagonal())
            got = {tuple(dm.inverse_index[i]): float(diag[i]) for i in range(len(diag))}
            if not same(exp, got):
                ctx.fail("density-matrix-loss", "DensityMatrix.apply_loss statistics differ from independent removal", desc,
                         str(sorted(exp.items())), str(sorted((k, v) for k, v in got.items() if v > 1e-12)))
        except Exception as e:
            ctx.fail(f"exception-dm-{type(e).__name__}", f"raised {type(e).__name__}: {e}", desc)
    ctx.streams["density-matrix loss"] = len(dm_cases)

    sample = [(70, [1, [[1, 0, QI(Fraction(3, 5)), QI(Fraction(4, 5))]], [2]])]
    a = ctx.model.run(sample, jobs=1)
    b = ctx.model.vm_crosscheck(sample, "c07")
    ctx.count("vm_compute_crosscheck", len(sample))
    if a != b:
        ctx.fail("extraction-vs-vm_compute", "extracted runner and vm_compute disagree", {"n": len(sample)})


def same(exp, got, tol=1e-9):
    keys = set(k for k, v in exp.items() if v > 1e-12) | set(k for k, v in got.items() if v > 1e-12)
    return all(abs(exp.get(k, 0.0) - got.get(k, 0.0)) <= tol for k in keys)


def replay(ctx, case):
    print(json.dumps(case, indent=1, default=str))
