"""C14 — elementary components realise their documented matrices for all parameter values."""
from __future__ import annotations
import math
from fractions import Fraction

from ..common import QI, Ang, rand_ang, un_mat, un_q, un_qi, mat_close, frac_of_float, close

LEVEL = "proof"
RULE = ("cases: BS (3 conventions x 5 Pythagorean angles, numeric + symbolic, far out-of-range shifts by whole "
        "ranges), PS/WP/HWP/QWP/PR, PERM of size <= 8 (matrix, perm_vector, action on states), "
        "Parameter._check_value on random (v, lo, hi, periodic), components bound to Parameters / integer-linear "
        "Expressions with set_value histories. Non-trivial: at least one non-trivial angle (cos,sin not in {0,+-1}) "
        "or a non-identity permutation or an out-of-range value; distinct by exact parameter tuple.")
TRUSTED = ["model: coq/Model/Components.v, Param.v (hand-written; tied by this correspondence stream)",
           "real-number axioms of Coq.Reals for the 'every real value' and periodicity theorems"]
ASSUMPTIONS = ["floating-point rounding not modelled; comparison tolerance 1e-9 (1e-7 for shifts of +-1e3 rad)",
               "Python floats read as exact rationals in check_value"]

CONV = ["Rx", "Ry", "H"]


def ph(a: Ang) -> QI:
    return QI(a.cos, a.sin)


def run(ctx):
    import perceval as pcvl
    from perceval.components import BS, PS, WP, HWP, QWP, PR, PERM
    from perceval.components.unitary_components import BSConvention
    from perceval.utils import Parameter, Expression, Matrix
    rng = ctx.rng
    conv_enum = {"Rx": BSConvention.Rx, "Ry": BSConvention.Ry, "H": BSConvention.H}

    # ---------------------------------------------------------------- BS
    n_bs = ctx.n(150, 2000)
    cases = []
    for i in range(n_bs):
        cv = rng.below(3)
        th2 = rand_ang(rng)            # theta/2
        phs = [rand_ang(rng) if rng.chance(3, 4) else Ang(1, 0, 1) for _ in range(4)]   # tl bl tr br
        shifts = [0] * 5
        if rng.chance(1, 2):
            shifts = [rng.rint(-80, 80) if rng.chance(1, 2) else 0 for _ in range(5)]
            # an angle that sits exactly on an end of its nominal range is a floating-point boundary case
            # (see the check_value stream); shifts are applied to interior angles only
            for k, a in enumerate([th2] + phs):
                if a.sin == 0:
                    shifts[k] = 0
        cases.append((cv, th2, phs, shifts))
    reqs = [(1, [cv, QI(t.cos), QI(t.sin), ph(p[0]), ph(p[1]), ph(p[2]), ph(p[3])]) for cv, t, p, _ in cases]
    outs = ctx.model.run(reqs)
    for (cv, t, p, sh), out in zip(cases, outs):
        expect = un_mat(out)
        theta = 2 * t.value + sh[0] * 4 * math.pi
        phis = [p[k].value + sh[k + 1] * 2 * math.pi for k in range(4)]
        case = {"component": "BS", "convention": CONV[cv], "theta": theta, "phi_tl": phis[0], "phi_bl": phis[1],
                "phi_tr": phis[2], "phi_br": phis[3], "shifts_in_ranges": sh,
                "cos_sin_half_theta": [str(t.cos), str(t.sin)]}
        nontriv = (t.cos not in (0, 1, -1)) or any(s != 0 for s in sh)
        ctx.case(["BS", cv, t.key(), [x.key() for x in p], sh], nontriv, case)
        ctx.count("BS." + CONV[cv])
        tol = 1e-9 if not any(sh) else 1e-7
        try:
            bs = BS(theta, phis[0], phis[1], phis[2], phis[3], convention=conv_enum[CONV[cv]])
            num = [[complex(x) for x in row] for row in bs.compute_unitary().tolist()]
            if not mat_close(num, expect, tol):
                ctx.fail("BS-numeric-matrix", "BS numeric matrix differs from the documented matrix", case,
                         expected=str(expect), observed=str(num))
                continue
            stored = [float(bs.param("theta")), float(bs.param("phi_tl")), float(bs.param("phi_bl")),
                      float(bs.param("phi_tr")), float(bs.param("phi_br"))]
            his = [4 * math.pi] + [2 * math.pi] * 4
            if any(not (-1e-9 <= v <= h + 1e-9) for v, h in zip(stored, his)):
                ctx.fail("BS-stored-out-of-range", "stored angle outside its nominal range", case,
                         observed=str(stored))
            if i_sym(ctx):
                sym = bs.compute_unitary(use_symbolic=True)
                symn = [[complex(sym[r, c].evalf(30)) for c in range(2)] for r in range(2)]
                ctx.count("BS.symbolic")
                if not mat_close(symn, expect, tol):
                    ctx.fail("BS-symbolic-matrix", "BS symbolic matrix differs from the documented matrix", case,
                             expected=str(expect), observed=str(symn))
        except Exception as e:
            ctx.fail("BS-exception", f"BS construction/evaluation raised {type(e).__name__}: {e}", case)
    ctx.streams["BS"] = n_bs

    # ---------------------------------------------------------------- PS / WP / PR
    n_o = ctx.n(120, 1500)
    cases = []
    reqs = []
    for i in range(n_o):
        kind = rng.choice(["PS", "WP", "PR", "HWP", "QWP"])
        a = rand_ang(rng)
        b = rand_ang(rng)              # for WP: 2*xsi
        k1, k2 = (rng.rint(-50, 50), rng.rint(-50, 50)) if rng.chance(1, 2) else (0, 0)
        if a.sin == 0:
            k1 = 0
        if b.sin == 0 or b.cos == 0:
            k2 = 0
        if kind == "PS":
            reqs.append((2, [ph(a)]))
        elif kind == "WP":
            reqs.append((3, [QI(a.cos), QI(a.sin), QI(b.cos), QI(b.sin)]))
        elif kind == "PR":
            reqs.append((4, [QI(a.cos), QI(a.sin)]))
        elif kind == "HWP":      # delta = pi/2: cos 0, sin 1
            reqs.append((3, [QI(0), QI(1), QI(b.cos), QI(b.sin)]))
        else:                    # QWP delta = pi/4: irrational; model receives the floats' exact values
            c = frac_of_float(math.cos(math.pi / 4))
            s = frac_of_float(math.sin(math.pi / 4))
            reqs.append((3, [QI(c), QI(s), QI(b.cos), QI(b.sin)]))
        cases.append((kind, a, b, k1, k2))
    outs = ctx.model.run(reqs)
    for (kind, a, b, k1, k2), out in zip(cases, outs):
        expect = un_mat(out)
        va = a.value + k1 * 2 * math.pi
        vb = b.value / 2 + k2 * 2 * math.pi
        case = {"component": kind, "angle": va, "xsi": vb, "shifts": [k1, k2]}
        ctx.case([kind, a.key(), b.key(), k1, k2], a.cos not in (0, 1, -1) or k1 != 0, case)
        ctx.count(kind)
        tol = 1e-9 if not (k1 or k2) else 1e-7
        try:
            comp = {"PS": lambda: PS(va), "WP": lambda: WP(va, vb), "PR": lambda: PR(va), "HWP": lambda: HWP(vb),
                    "QWP": lambda: QWP(vb)}[kind]()
            n = 1 if kind == "PS" else 2
            num = [[complex(x) for x in row] for row in comp.compute_unitary(use_polarization=None if kind == "PS" else True).tolist()]
            if not mat_close(num, expect, tol):
                ctx.fail(f"{kind}-numeric-matrix", f"{kind} numeric matrix differs from the documented matrix", case,
                         expected=str(expect), observed=str(num))
                continue
            if i_sym(ctx):
                sym = comp.compute_unitary(use_symbolic=True, use_polarization=None if kind == "PS" else True)
                symn = [[complex(sym[r, c].evalf(30)) for c in range(n)] for r in range(n)]
                if not mat_close(symn, expect, tol):
                    ctx.fail(f"{kind}-symbolic-matrix", f"{kind} symbolic matrix differs", case,
                             expected=str(expect), observed=str(symn))
        except Exception as e:
            ctx.fail(f"{kind}-exception", f"{kind} raised {type(e).__name__}: {e}", case)
    ctx.streams["PS/WP/PR"] = n_o

    # ---------------------------------------------------------------- PERM
    n_p = ctx.n(80, 1000)
    cases = [rng.shuffle(range(rng.rint(2, 8))) for _ in range(n_p)]
    outs = ctx.model.run([(5, p) for p in cases])
    for p, out in zip(cases, outs):
        expect = un_mat(out)
        case = {"component": "PERM", "perm": p}
        ctx.case(["PERM", p], p != sorted(p), case)
        ctx.count("PERM")
        try:
            c = PERM(list(p))
            num = [[complex(x) for x in row] for row in c.compute_unitary().tolist()]
            if not mat_close(num, expect):
                ctx.fail("PERM-matrix", "PERM matrix differs from u[perm[k],k]=1", case, str(expect), str(num))
                continue
            if list(c.perm_vector) != list(p):
                ctx.fail("PERM-perm_vector", "perm_vector does not return the list given", case, p, c.perm_vector)
            # action on a Fock state: photon entering mode k leaves on mode p[k]
            k = rng.below(len(p))
            st = [0] * len(p)
            st[k] = 1
            sv = c.apply(tuple(range(len(p))), pcvl.BasicState(st))
            outst = list(list(sv.keys())[0])
            if outst.index(1) != p[k]:
                ctx.fail("PERM-apply", "PERM.apply sends mode k elsewhere than perm[k]", {**case, "k": k}, p[k], outst)
        except Exception as e:
            ctx.fail("PERM-exception", f"PERM raised {type(e).__name__}: {e}", case)
    ctx.streams["PERM"] = n_p

    # ---------------------------------------------------------------- _check_value
    n_c = ctx.n(300, 5000)
    cases = []
    for i in range(n_c):
        lo = rng.choice([0.0, -math.pi, -1.5, 2.0])
        hi = lo + rng.choice([2 * math.pi, 4 * math.pi, math.pi, 1.0, 3.75])
        scale = rng.choice([1, 1, 10, 1000])
        v = (rng.below(2_000_001) - 1_000_000) / 1_000_000 * scale * (hi - lo) + lo
        if rng.chance(1, 10):
            v = rng.choice([lo, hi, lo + (hi - lo) * rng.rint(-5, 5), lo + (hi - lo) * rng.rint(-100, 100)])
        periodic = rng.chance(3, 4)
        nolo = rng.chance(1, 12)
        nohi = rng.chance(1, 12)
        cases.append((v, None if nolo else lo, None if nohi else hi, periodic))
    enc = lambda x: [] if x is None else frac_of_float(x)
    outs = ctx.model.run([(6, [frac_of_float(v), enc(lo), enc(hi), periodic]) for v, lo, hi, periodic in cases])
    for (v, lo, hi, periodic), out in zip(cases, outs):
        case = {"fn": "Parameter._check_value", "v": v, "min": lo, "max": hi, "periodic": periodic}
        outside = (lo is not None and v < lo) or (hi is not None and v > hi)
        ctx.case(["cv", v, lo, hi, periodic], outside, case)
        ctx.count("check_value." + ("wrap" if outside and periodic else "reject" if outside else "inside"))
        try:
            got = Parameter._check_value(v, lo, hi, periodic)
            err = False
        except (ValueError, TypeError):   # TypeError: the message formats a None bound with %f
            got, err = None, True
        if out[0] == 0:
            # the model rejects; on a boundary the float computation may land exactly inside: compare with slack
            if not err:
                ctx.fail("check_value-accepts", "_check_value accepted a value the model rejects", case, "ValueError", got)
        else:
            exp = float(un_q(out[1]))
            if err:
                # float rounding at the exact boundary can push the wrapped value out by 1 ulp; decide exactly
                on_edge = min(abs(exp - (lo if lo is not None else exp + 1)), abs(exp - (hi if hi is not None else exp + 1))) <= 1e-9 * max(1.0, abs(v))
                sig = "check_value-rejects-range-end-multiple" if (on_edge and outside and periodic) else "check_value-rejects"
                ctx.fail(sig, "_check_value raised on a value the model accepts", case, exp, "ValueError")
            else:
                tol = 1e-9 * max(1.0, abs(v))
                ok = abs(got - exp) <= tol
                if not ok and periodic and lo is not None and hi is not None:
                    # equal modulo the range length (both range ends denote the same angle) and inside the range
                    q = (got - exp) / (hi - lo)
                    ok = abs(q - round(q)) * (hi - lo) <= tol and lo - tol <= got <= hi + tol
                if not ok:
                    ctx.fail("check_value-value", "_check_value stored a non-equivalent value", case, exp, got)
    ctx.streams["check_value"] = n_c

    # ---------------------------------------------------------------- bound parameters and expressions
    n_e = ctx.n(60, 600)
    for i in range(n_e):
        a0, b0 = rand_ang(rng, False), rand_ang(rng, False)
        na, nb = rng.rint(-3, 3), rng.rint(-3, 3)
        if na == 0 and nb == 0:
            na = 1
        hist = []
        fixed = set()
        for _ in range(rng.rint(1, 5)):
            nm = rng.choice("ab")
            if nm in fixed:
                continue
            kind = "fix" if rng.chance(1, 4) else "set"
            if kind == "fix":
                fixed.add(nm)
            hist.append((nm, rand_ang(rng, False), kind))
        pa, pb = Parameter(f"a{i}"), Parameter(f"b{i}")
        terms = []
        if na:
            terms.append(f"{na}*a{i}")
        if nb:
            terms.append(f"{nb}*b{i}")
        expr_s = " + ".join(terms)
        case = {"component": "PS(Expression), BS(theta=a)", "expr": expr_s, "a0": a0.value, "b0": b0.value,
                "history": [(n, x.value, k) for n, x, k in hist]}
        ctx.case(["expr", na, nb, a0.key(), b0.key(), [(n, x.key(), k) for n, x, k in hist]], True, case)
        ctx.count("expression")
        try:
            params = set()
            if na:
                params.add(pa)
            if nb:
                params.add(pb)
            ps = PS(Expression(expr_s, params))
            bs = BS(theta=pa)
            cur = {"a": a0, "b": b0}
            pa.set_value(a0.value)
            pb.set_value(b0.value)
            steps = [None] + hist
            for st in steps:
                if st is not None:
                    cur[st[0]] = st[1]
                    prm = pa if st[0] == "a" else pb
                    (prm.fix_value if st[2] == "fix" else prm.set_value)(st[1].value)
                    ctx.count("history." + st[2])
                out = ctx.model.run([(7, [[ph(cur["a"]), na], [ph(cur["b"]), nb]])])[0]
                exp = un_qi(out)
                got = complex(ps.compute_unitary()[0, 0])
                if not close(got, exp, 1e-9):
                    ctx.fail("expression-stale", "component bound to an expression does not reflect current values",
                             case, str(exp), str(got))
                    break
                # the symbolic computation must agree with the numeric one at the current values
                # (an Expression keeps its symbols in the symbolic matrix: evaluate it at the current values)
                subs = {pa.name: float(pa), pb.name: float(pb)}
                gsym = complex(ps.compute_unitary(use_symbolic=True)[0, 0].subs(subs).evalf(30))
                if not close(gsym, exp, 1e-9):
                    ctx.fail("expression-stale-symbolic", "symbolic matrix of a component bound to an expression does not "
                             "reflect the current parameter values", case, str(exp), str(gsym))
                    break
                want = cur["a"].value
                m = bs.compute_unitary()
                if not close(complex(m[0, 0]), math.cos(want / 2), 1e-9) and not close(complex(m[0, 0]), -math.cos(want / 2), 1e-9):
                    ctx.fail("parameter-stale", "component bound to a parameter does not reflect its current value",
                             case, math.cos(want / 2), str(m[0, 0]))
                    break
                msym = bs.compute_unitary(use_symbolic=True)
                msn = [[complex(msym[r, c].evalf(30)) for c in range(2)] for r in range(2)]
                mn = [[complex(m[r, c]) for c in range(2)] for r in range(2)]
                if not mat_close(msn, mn, 1e-9):
                    ctx.fail("parameter-stale-symbolic", "symbolic and numeric matrices of a component bound to a parameter "
                             "disagree after the parameter changed", case, str(mn), str(msn))
                    break
                if abs(math.cos(float(pa)) - math.cos(want)) > 1e-9:
                    ctx.fail("parameter-value", "parameter does not hold the value set", case, want, float(pa))
                    break
        except Exception as e:
            ctx.fail("expression-exception", f"{type(e).__name__}: {e}", case)
    ctx.streams["bound-parameters"] = n_e

    # ---------------------------------------------------------------- an expression in any slot of any component
    # (every kind of parametrised component, every angle slot, bound to na*a + nb*b; the sub-parameters change between
    #  evaluations and the numeric and symbolic matrices must follow)
    n_x = ctx.n(80, 800)
    xcases, xreqs, xwhere = [], [], []
    for i in range(n_x):
        r = rng.fork(("exprslot", i))
        kind = r.choice(["BS", "BS", "BS", "PS", "PR", "WP", "HWP", "QWP"])
        cv = r.below(3)
        slot = {"BS": r.choice(["theta", "phi_tl", "phi_bl", "phi_tr", "phi_br"]), "PS": "phi", "PR": "delta",
                "WP": r.choice(["delta", "xsi"]), "HWP": "xsi", "QWP": "xsi"}[kind]
        na, nb = r.rint(-2, 2), r.rint(-2, 2)
        if na == 0:
            na = 1
        others = [rand_ang(r) for _ in range(5)]          # the component's other angles (numbers)
        vals = [(rand_ang(r, False), rand_ang(r, False))]
        for _ in range(r.rint(1, 4)):
            a, b = vals[-1]
            if r.chance(1, 2):
                a = rand_ang(r, False)
            else:
                b = rand_ang(r, False)
            vals.append((a, b))
        xcases.append((kind, cv, slot, na, nb, others, vals))
        for qi, (a, b) in enumerate(vals):
            e = ang_lin(na, a, nb, b)
            if kind == "BS":
                o = others
                t2 = e if slot == "theta" else o[4]
                phs = [e if slot == nm else o[k] for k, nm in enumerate(["phi_tl", "phi_bl", "phi_tr", "phi_br"])]
                xreqs.append((1, [cv, QI(t2.cos), QI(t2.sin), ph(phs[0]), ph(phs[1]), ph(phs[2]), ph(phs[3])]))
            elif kind == "PS":
                xreqs.append((2, [ph(e)]))
            elif kind == "PR":
                xreqs.append((4, [QI(e.cos), QI(e.sin)]))
            elif kind == "WP":
                d, x2 = (e, others[0]) if slot == "delta" else (others[0], e)
                xreqs.append((3, [QI(d.cos), QI(d.sin), QI(x2.cos), QI(x2.sin)]))
            elif kind == "HWP":
                xreqs.append((3, [QI(0), QI(1), QI(e.cos), QI(e.sin)]))
            else:
                c = frac_of_float(math.cos(math.pi / 4))
                sn = frac_of_float(math.sin(math.pi / 4))
                xreqs.append((3, [QI(c), QI(sn), QI(e.cos), QI(e.sin)]))
            xwhere.append((i, qi))
    xouts = ctx.model.run(xreqs)
    xexp = {w: un_mat(o) for w, o in zip(xwhere, xouts)}
    for i, (kind, cv, slot, na, nb, others, vals) in enumerate(xcases):
        pa, pb = Parameter(f"xa{i}"), Parameter(f"xb{i}")
        lin = f"{na}*xa{i}" + (f" + {nb}*xb{i}" if nb else "")
        # BS theta is twice the modelled half-angle; the wave plates' xsi is half the modelled angle
        expr_s = f"2*({lin})" if (kind == "BS" and slot == "theta") else (f"({lin})/2" if slot == "xsi" else lin)
        case = {"component": kind, "convention": CONV[cv] if kind == "BS" else None, "slot": slot, "expression": expr_s,
                "other angles": [o.value for o in others], "values (a, b) per evaluation": [(a.value, b.value) for a, b in vals]}
        ctx.case(["exprslot", kind, cv, slot, na, nb, [o.key() for o in others], [(a.key(), b.key()) for a, b in vals]],
                 True, case)
        ctx.count("expression-slot." + kind + "." + slot)
        try:
            ex = Expression(expr_s, {pa, pb} if nb else {pa})
            o = others
            if kind == "BS":
                args = {"theta": 2 * o[4].value, "phi_tl": o[0].value, "phi_bl": o[1].value, "phi_tr": o[2].value,
                        "phi_br": o[3].value}
                args[slot] = ex
                comp = BS(convention=conv_enum[CONV[cv]], **args)
            elif kind == "PS":
                comp = PS(ex)
            elif kind == "PR":
                comp = PR(ex)
            elif kind == "WP":
                comp = WP(ex, o[0].value / 2) if slot == "delta" else WP(o[0].value, ex)
            elif kind == "HWP":
                comp = HWP(ex)
            else:
                comp = QWP(ex)
            pol = None if kind in ("BS", "PS") else True
            for qi, (a, b) in enumerate(vals):
                pa.set_value(a.value)
                pb.set_value(b.value)
                expect = xexp[(i, qi)]
                num = [[complex(x) for x in row] for row in comp.compute_unitary(use_polarization=pol).tolist()]
                if not mat_close(num, expect, 1e-8):
                    ctx.fail("expression-slot-stale", f"a component bound to an expression of parameters does not reflect their "
                             f"current values (evaluation {qi + 1})", case, str(expect), str(num))
                    break
                if i_sym(ctx) or qi == len(vals) - 1:
                    sym = comp.compute_unitary(use_symbolic=True, use_polarization=pol)
                    subs = {pa.name: float(pa), pb.name: float(pb)}
                    n = len(expect)
                    symn = [[complex(sp_num(sym[r_, c_], subs)) for c_ in range(n)] for r_ in range(n)]
                    if not mat_close(symn, expect, 1e-8):
                        ctx.fail("expression-slot-stale-symbolic", "the symbolic matrix of a component bound to an expression "
                                 f"does not reflect the current parameter values (evaluation {qi + 1})", case, str(expect), str(symn))
                        break
        except Exception as e:
            ctx.fail("expression-slot-exception", f"{type(e).__name__}: {e}", case)
    ctx.streams["expression in any slot, values changed between evaluations"] = n_x

    # ---------------------------------------------------------------- expressions built with Python operators
    # (Parameter arithmetic with float constants of full precision, the r_to_theta / reflectivity overloads; the oracle
    #  here is the same formula evaluated on Python floats — harness arithmetic, not the Coq model)
    import cmath
    n_op = ctx.n(80, 800)
    for i in range(n_op):
        r = rng.fork(("operators", i))
        t = Parameter(f"t{i}")
        u = Parameter(f"u{i}")
        consts = [2 * math.pi, math.pi / 3, 1234567.5, 0.123456789012, 1e-7 * 3.3333333333, 7.0, 2.0, 1.0 / 3.0,
                  float(r.rint(1, 999999)) / 997.0]
        k1, k2 = r.choice(consts), r.choice(consts)
        forms = [
            ("k1*t", lambda: k1 * t, lambda a, b: k1 * a),
            ("t*k1", lambda: t * k1, lambda a, b: a * k1),
            ("t/k1", lambda: t / k1, lambda a, b: a / k1),
            ("t+k1", lambda: t + k1, lambda a, b: a + k1),
            ("k1+t", lambda: k1 + t, lambda a, b: k1 + a),
            ("t-k1", lambda: t - k1, lambda a, b: a - k1),
            ("k1-t", lambda: k1 - t, lambda a, b: k1 - a),
            ("-t", lambda: -t, lambda a, b: -a),
            ("t**2", lambda: t ** 2, lambda a, b: a ** 2),
            ("k1*t+k2*u", lambda: k1 * t + k2 * u, lambda a, b: k1 * a + k2 * b),
            ("(t+u)*k1", lambda: (t + u) * k1, lambda a, b: (a + b) * k1),
            ("t*u", lambda: t * u, lambda a, b: a * b),
            ("k1*t-u/k2", lambda: k1 * t - u / k2, lambda a, b: k1 * a - b / k2),
        ]
        name, build, oracle = r.choice(forms)
        vals = [(r.rint(-4000, 4000) / 1000.0 + 1e-9 * r.rint(0, 999), r.rint(-4000, 4000) / 1000.0) for _ in range(r.rint(2, 3))]
        preset = r.chance(1, 2)          # do the parameters hold a value when the expression is built?
        case = {"expression": name, "k1": k1, "k2": k2, "values (t, u) per evaluation": vals, "parameters hold a value when bound": preset}
        ctx.case(["operators", name, k1, k2, vals, preset], True, case)
        ctx.count("operators." + name)
        try:
            if preset:
                t.set_value(0.25)
                u.set_value(0.5)
            ex = build()
            ps = PS(ex)
            for qi, (a, b) in enumerate(vals):
                t.set_value(a)
                u.set_value(b)
                want = oracle(a, b)
                got = float(ex)
                if abs(got - want) > 1e-12 * max(1.0, abs(want)):
                    ctx.fail("operator-expression-value", f"the value of a Parameter expression built with Python operators is not "
                             f"the formula evaluated at the current values (evaluation {qi + 1})", case, want, got)
                    break
                z = complex(ps.compute_unitary()[0, 0])
                # (a huge angle carries the rounding of its own ulp and of the wrap into [0, 2 pi): 1e-7 rad at 1e7 rad)
                if abs(z - cmath.exp(1j * want)) > 1e-9 + 1e-14 * abs(want):
                    ctx.fail("operator-expression-stale", f"PS bound to the expression does not carry exp(i * value) (evaluation {qi + 1})",
                             case, str(cmath.exp(1j * want)), str(z))
                    break
        except Exception as e:
            ctx.fail("operator-expression-exception", f"{type(e).__name__}: {e}", case)
    ctx.streams["expressions built with Python operators"] = n_op

    n_rt = ctx.n(40, 400)
    for i in range(n_rt):
        r = rng.fork(("r_to_theta", i))
        cv = r.below(3)
        rp = Parameter(f"r{i}")
        preset = r.chance(1, 2)
        vals = [r.rint(1, 999) / 1000.0 for _ in range(r.rint(2, 3))]
        case = {"component": "BS(theta=BS.r_to_theta(r))", "convention": CONV[cv], "reflectivities per evaluation": vals,
                "r holds a value when bound": preset}
        ctx.case(["r_to_theta", cv, vals, preset], True, case)
        ctx.count("r_to_theta." + CONV[cv])
        try:
            if preset:
                rp.set_value(0.5)
            bs = BS(theta=BS.r_to_theta(rp), convention=conv_enum[CONV[cv]])
            for qi, rv in enumerate(vals):
                rp.set_value(rv)
                m_ = bs.compute_unitary()
                got = abs(complex(m_[0, 0])) ** 2
                if abs(got - rv) > 1e-9:
                    ctx.fail("r_to_theta-stale", f"a beam splitter built with BS.r_to_theta(r) does not have reflectivity r at the "
                             f"current value (evaluation {qi + 1})", case, rv, got)
                    break
                refl = bs.reflectivity
                if abs(float(refl) - rv) > 1e-9:
                    ctx.fail("reflectivity-stale", "BS.reflectivity differs from the current reflectivity", case, rv, float(refl))
                    break
            # the numeric overloads
            x = r.rint(1, 999) / 1000.0
            if abs(BS.theta_to_r(BS.r_to_theta(x)) - x) > 1e-12:
                ctx.fail("r_to_theta-numeric", "theta_to_r(r_to_theta(x)) != x", {"x": x}, x, BS.theta_to_r(BS.r_to_theta(x)))
        except Exception as e:
            ctx.fail("r_to_theta-exception", f"{type(e).__name__}: {e}", case)
    ctx.streams["r_to_theta / reflectivity overloads"] = n_rt

    # cross-check the extraction against vm_compute on a sample
    if not ctx.quick() or True:
        sample = [(1, [0, QI(Fraction(3, 5)), QI(Fraction(4, 5)), QI(1), QI(0, 1), QI(Fraction(5, 13), Fraction(12, 13)), QI(1)]),
                  (5, [2, 0, 3, 1]), (6, [Fraction(29, 2), Fraction(0), frac_of_float(4 * math.pi), True])]
        a = ctx.model.run(sample)
        b = ctx.model.vm_crosscheck(sample, "c14")
        ctx.count("vm_compute_crosscheck", len(sample))
        if a != b:
            ctx.fail("extraction-vs-vm_compute", "extracted runner and vm_compute disagree", {"requests": str(sample)},
                     str(b), str(a))


def i_sym(ctx):
    # symbolic evaluation is slow (sympy): sample 1 in 5
    return ctx.rng.chance(1, 5)


def replay(ctx, case):
    print(case)


def ang_lin(na, a, nb, b):
    """The angle na*a + nb*b with exact rational cosine and sine (rotation composition)."""
    def cpow(c, s_, n):
        if n < 0:
            s_, n = -s_, -n
        rc, rs = Fraction(1), Fraction(0)
        for _ in range(n):
            rc, rs = rc * c - rs * s_, rc * s_ + rs * c
        return rc, rs
    c1, s1 = cpow(a.cos, a.sin, na)
    c2, s2 = cpow(b.cos, b.sin, nb)
    out = Ang(1, 0, 1)
    out.cos, out.sin = c1 * c2 - s1 * s2, c1 * s2 + s1 * c2
    out.value = na * a.value + nb * b.value
    return out


def sp_num(x, subs):
    try:
        return x.subs(subs).evalf(30)
    except AttributeError:
        return x
