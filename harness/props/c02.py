"""C02 — every strong-simulation engine returns the boson-sampling amplitudes."""
from __future__ import annotations
import json
import math
from fractions import Fraction

from ..common import QI, un_q, un_qi, close
from .. import gen

LEVEL = "proof"
RULE = ("circuits of elementary components (BS of the three conventions incl. non-symmetric Ry with unequal phases, PS, "
        "PERM) and exact Haar-like unitary blocks, m <= 5 (6 thorough), n <= 3 (4 thorough); for every sampled input "
        "state ALL output states of the (m,n) space are compared (amplitude * sqrt(prod s! prod t!) against the "
        "permanent computed by the extracted Coq model), for the engines Naive, SLOS, SLAP, MPS (full bond dimension) "
        "and Stepper; plus prob_distribution / all_prob / evolve (keys, order, values), exact total mass = 1, masks "
        "(one or several, digits and '*'), cross-photon-number amplitudes, white-box Naive submatrix and SLOS "
        "coefficients. Non-trivial: n >= 2 and (s or t bunched or U non-symmetric); distinct by (U, s, engine set).")
TRUSTED = ["model: coq/Model/Engines.v, EnginesX.v; spec = textbook Laplace permanent (Lib/Permanent.v)",
           "SLAP, MPS (SVD), the native SLOS layer and permanent_cx have no algorithmic model: compared with the spec only"]
ASSUMPTIONS = ["tolerance 1e-9 on amplitudes (1e-6 for MPS, whose singular-value floor is 1e-8; 5e-6 for the Stepper, because the native StateVector it accumulates into drops terms below ~1e-6 and renormalises)",
               "MPS is run with set_cutoff((n+1)**(m//2)) = its full bond dimension",
               "amplitudes read out of a StateVector (evolve) may read exactly 0 when the specification's amplitude is below 2e-6 in "
               "modulus: the native StateVector container drops terms under ~1e-6 (StateVector(|1,0>) + 9e-7*|0,1> has one term); "
               "prob_amplitude / probability / prob_distribution / all_prob are compared at full tolerance"]


class Circ:
    def __init__(self, m, items, mps_ok):
        self.m, self.items, self.mps_ok = m, items, mps_ok     # items: list of (off, Leaf)
        U = gen.qmat_id(m)
        for off, lf in items:
            U = gen.qmat_mul(gen.qmat_embed(m, off, lf.U), U)
        self.U = U

    def build(self):
        import perceval as pcvl
        c = pcvl.Circuit(self.m)
        for off, lf in self.items:
            c.add(off, lf.build())
        return c

    def describe(self):
        return [f"Circuit({self.m})"] + [f".add({off}, {lf.describe()})" for off, lf in self.items]

    def symmetric(self):
        return all(self.U[i][j].key() == self.U[j][i].key() for i in range(self.m) for j in range(self.m))


def rand_circ(rng, m, elementary):
    items = []
    if elementary:
        for _ in range(rng.rint(1, 2 * m)):
            lf = gen.rand_leaf(rng, min(m, 3), kinds=("BS", "BS", "BS", "PS", "PERM"))
            items.append((rng.rint(0, m - lf.k), lf))
        mps_ok = True
    else:
        k = rng.rint(2, min(m, 4))
        lf = gen.Leaf("U", k, gen.rand_unitary_exact(rng, k), ())
        items.append((rng.rint(0, m - k), lf))
        for _ in range(rng.rint(0, 3)):
            lf = gen.rand_leaf(rng, min(m, 3))
            items.append((rng.rint(0, m - lf.k), lf))
        if rng.chance(1, 2):      # a second, different block of the same size (same name, same width)
            lf2 = gen.Leaf("U", k, gen.rand_unitary_exact(rng, k), ())
            items.insert(rng.rint(1, len(items)), (rng.rint(0, m - k), lf2))
        mps_ok = all(lf.k <= 2 or lf.kind == "PERM" for _, lf in items)
    return Circ(m, items, mps_ok)


def sv_close(a, anum, nrm, tol):
    """Amplitude read out of a StateVector: the native StateVector drops terms whose modulus is below about 1e-6
    (documented trimming of the container, not of the engines), so a term of that size may read exactly 0."""
    if close(a * math.sqrt(nrm), anum, tol * math.sqrt(nrm)):
        return True
    return a == 0 and abs(anum) / math.sqrt(nrm) < 2e-6


def engines(mps_ok):
    import perceval as pcvl
    e = {"Naive": pcvl.NaiveBackend, "SLOS": pcvl.SLOSBackend, "SLAP": pcvl.SLAPBackend}
    if mps_ok:
        e["MPS"] = pcvl.MPSBackend
    return e


def run(ctx):
    import perceval as pcvl
    import numpy as np
    from perceval.simulators import Stepper
    rng = ctx.rng
    BS_ = pcvl.BasicState
    mmax, nmax = (5, 3) if ctx.quick() else (6, 4)
    ncirc = ctx.n(22, 120)
    circs = corpus(rng) + [rand_circ(rng.fork(i), rng.rint(2, mmax), rng.chance(2, 3)) for i in range(ncirc)]
    jobs = []       # (circ, s)
    for ci, c in enumerate(circs):
        crng = rng.fork(("in", ci))
        for n in range(0, nmax + 1):
            sp = gen.all_states(c.m, n)
            if len(sp) > 60:
                continue
            k = 1 if n <= 1 else (2 if ctx.quick() else 5)
            for s in (sp if len(sp) <= k else [crng.choice(sp) for _ in range(k)]):
                jobs.append((c, s))
    ctx.log(f"{len(circs)} circuits, {len(jobs)} (circuit, input) pairs")
    outs = ctx.model.run([(20, [c.m, c.U, s]) for c, s in jobs])
    dists = ctx.model.run([(22, [c.m, c.U, s]) for c, s in jobs])
    reported = set()

    def fail(sig, what, case, exp=None, obs=None):
        ctx.fail(sig, what, case, exp, obs)

    built = {}
    for (c, s), out, dist in zip(jobs, outs, dists):
        if id(c) not in built:
            circuit = c.build()
            built[id(c)] = circuit
            Uf = np.array(circuit.compute_unitary())
            Ue = gen.qmat_to_np(c.U)
            if not np.allclose(Uf, Ue, atol=1e-9):
                fail("circuit-matrix", "compute_unitary differs from the exact product (C01 matter)", {"circuit": c.describe()})
        circuit = built[id(c)]
        n = sum(s)
        case = {"circuit": c.describe(), "input": s}
        expected = [(e[0], un_qi(e[1]), e[2]) for e in out]           # (t, amp_num, norm2)
        bunched = any(x > 1 for x in s)
        nontriv = n >= 2 and (bunched or not c.symmetric())
        ctx.case(["amp", gen.qmat_key(c.U), s], nontriv, case)
        ctx.count(f"m{c.m}.n{n}")
        # exact mass of the model distribution: the full distribution sums to one over exactly the (m,n) space
        if un_q(dist[0]) != 1:
            fail("model-mass", "exact mass of the specification differs from 1 (U not unitary?)", case, 1, str(un_q(dist[0])))
        pexp = {tuple(e[0]): float(un_q(e[1])) for e in dist[1]}
        order = [tuple(e[0]) for e in out]
        for name, B in engines(c.mps_ok).items():
            tol = 1e-6 if name == "MPS" else 1e-9
            ctx.count("engine." + name)
            try:
                b = B()
                b.set_circuit(circuit)
                if name == "MPS":
                    b.set_cutoff(max(1, (n + 1) ** (c.m // 2)))
                b.set_input_state(BS_(s))
                for t, anum, nrm in expected:
                    a = complex(b.prob_amplitude(BS_(t)))
                    if not close(a * math.sqrt(nrm), anum, tol * math.sqrt(nrm)):
                        fail(f"amplitude-{name}", f"{name}.prob_amplitude differs from perm(U[t|s])/sqrt(prod s! prod t!)",
                             {**case, "output": t}, str(anum / math.sqrt(nrm)), str(a))
                        break
                    p = float(b.probability(BS_(t)))
                    if abs(p - abs(anum) ** 2 / nrm) > tol:
                        fail(f"probability-{name}", f"{name}.probability is not the squared modulus", {**case, "output": t},
                             abs(anum) ** 2 / nrm, p)
                        break
                pd = b.prob_distribution()
                keys = [tuple(k) for k in pd.keys()]
                vals = {tuple(k): float(v) for k, v in pd.items()}
                nz = [t for t in order if pexp[t] > 1e-12]
                if [k for k in keys if vals[k] > 1e-12] != nz:
                    fail(f"distribution-keys-{name}", f"{name}.prob_distribution keys/order differ from the enumeration", case, nz, keys)
                elif any(abs(vals.get(t, 0.0) - pexp[t]) > tol for t in order):
                    fail(f"distribution-values-{name}", f"{name}.prob_distribution values differ", case, str(pexp), str(vals))
                ap = [float(x) for x in b.all_prob()]
                if len(ap) != len(order) or any(abs(x - pexp[t]) > tol for x, t in zip(ap, order)):
                    fail(f"all_prob-{name}", f"{name}.all_prob is not the list of probabilities in enumeration order", case,
                         [pexp[t] for t in order], ap)
                if name != "MPS" or True:
                    sv = b.evolve()
                    for t, anum, nrm in expected:
                        a = complex(sv[BS_(t)])
                        if not sv_close(a, anum, nrm, 10 * tol):
                            fail(f"evolve-{name}", f"{name}.evolve amplitude differs", {**case, "output": t},
                                 str(anum / math.sqrt(nrm)), str(a))
                            break
            except Exception as e:
                fail(f"exception-{name}-{type(e).__name__}", f"{name} raised {type(e).__name__}: {e}", case)
        # step-by-step simulator
        try:
            ctx.count("engine.Stepper")
            st = Stepper()
            st.set_circuit(circuit)
            sv = st.evolve(BS_(s))
            for t, anum, nrm in expected:
                a = complex(sv[BS_(t)])
                if not sv_close(a, anum, nrm, 5e-6):
                    fail("amplitude-Stepper", "Stepper.evolve amplitude differs", {**case, "output": t},
                         str(anum / math.sqrt(nrm)), str(a))
                    break
        except Exception as e:
            fail(f"exception-Stepper-{type(e).__name__}", f"Stepper raised {type(e).__name__}: {e}", case)
    ctx.streams["amplitudes(all outputs)"] = len(jobs)

    # ------------------------------------------------------------ the symbolic option of SLOS (a second entry point)
    sym_jobs = [(c, s_, out) for (c, s_), out in zip(jobs, outs) if c.m <= 3 and 1 <= sum(s_) <= 2][:ctx.n(12, 80)]
    for c, s_, out in sym_jobs:
        case = {"circuit": c.describe(), "input": s_, "engine": "SLOSBackend(use_symbolic=True)"}
        ctx.case(["symbolic", gen.qmat_key(c.U), s_], not c.symmetric(), case)
        ctx.count("engine.SLOS(symbolic)")
        try:
            b = pcvl.SLOSBackend(use_symbolic=True)
            b.set_circuit(built.get(id(c)) or c.build())
            b.set_input_state(BS_(s_))
            for e in out:
                t, anum, nrm = e[0], un_qi(e[1]), e[2]
                a = complex(b.prob_amplitude(BS_(t)))
                if not close(a * math.sqrt(nrm), anum, 1e-9 * math.sqrt(nrm)):
                    fail("amplitude-SLOS(symbolic)", "SLOSBackend(use_symbolic=True).prob_amplitude differs from "
                         "perm(U[t|s])/sqrt(prod s! prod t!)", {**case, "output": t}, str(anum / math.sqrt(nrm)), str(a))
                    break
        except Exception as e:
            fail(f"exception-SLOS(symbolic)-{type(e).__name__}", f"SLOS(symbolic) raised {type(e).__name__}: {e}", case)
    ctx.streams["SLOS with use_symbolic=True"] = len(sym_jobs)

    # ------------------------------------------------------------ different photon numbers, white-box pieces
    wb = []
    for i in range(ctx.n(60, 600)):
        c = rng.choice(circs)
        s = gen.rand_state(rng, c.m, rng.rint(0, nmax))
        t = gen.rand_state(rng, c.m, rng.rint(0, nmax)) if rng.chance(1, 2) else gen.rand_state(rng, c.m, sum(s))
        wb.append((c, s, t))
    outs = ctx.model.run([(21, [c.m, c.U, s, t]) for c, s, t in wb])
    subs = ctx.model.run([(24, [c.U, s, t]) for c, s, t in wb if sum(s) == sum(t) and sum(s) > 0])
    subs = iter(subs)
    for (c, s, t), o in zip(wb, outs):
        case = {"circuit": c.describe(), "input": s, "output": t}
        anum, nrm, naive_m, slos_m = un_qi(o[0]), o[1], un_qi(o[2]), un_qi(o[3])
        ctx.case(["amp1", gen.qmat_key(c.U), s, t], sum(s) >= 2, case)
        ctx.count("n_equal" if sum(s) == sum(t) else "n_differs")
        if not (close(anum, naive_m) and close(anum, slos_m)):
            fail("model-inconsistent", "model Naive/SLOS differ from the model spec (cannot happen: proved equal)", case)
        circuit = built.get(id(c)) or c.build()
        for name, B in engines(False).items():
            try:
                b = B()
                b.set_circuit(circuit)
                b.set_input_state(BS_(s))
                a = complex(b.prob_amplitude(BS_(t)))
                if not close(a * math.sqrt(nrm), anum, 1e-9 * math.sqrt(nrm)):
                    fail(f"amplitude-{name}" + ("" if sum(s) == sum(t) else "-n-differs"),
                         f"{name}.prob_amplitude differs", case, str(anum / math.sqrt(nrm)), str(a))
                if name == "Naive" and sum(s) == sum(t) and sum(s) > 0:
                    M = np.array(b._compute_submatrix(BS_(t)))
                    Mm = np.array([[un_qi(e) for e in row] for row in next(subs)])
                    if M.shape != Mm.shape or not np.allclose(M, Mm, atol=1e-9):
                        fail("naive-submatrix", "_compute_submatrix differs from U[t|s]", case, str(Mm), str(M))
                if name == "SLOS" and sum(s) == sum(t):
                    coef = complex(b._state_mapping[BS_(s)].coefs[b._fsas[sum(t)].find(BS_(t)), 0])
                    ft = math.prod(math.factorial(x) for x in t)
                    if not close(coef * ft, anum, 1e-9 * ft):
                        fail("slos-coefficient", "SLOS coefficient * prod t! differs from the permanent", case,
                             str(anum / ft), str(coef))
            except Exception as e:
                fail(f"exception-{name}-{type(e).__name__}", f"{name} raised {type(e).__name__}: {e}", case)
    ctx.streams["single amplitudes + white box"] = len(wb)

    # ------------------------------------------------------------ masks
    mk = []
    for i in range(ctx.n(60, 600)):
        c = rng.choice(circs)
        n = rng.rint(1, nmax)
        s = gen.rand_state(rng, c.m, n)
        nmask = rng.rint(1, 2)
        masks = []
        for _ in range(nmask):
            msk = [-1] * c.m
            budget = n
            for j in rng.shuffle(range(c.m))[:rng.rint(1, max(1, c.m - 1))]:
                d = rng.rint(0, min(budget, 2))
                msk[j] = d
                budget -= d
            masks.append(msk)
        mk.append((c, s, masks))
    outs = ctx.model.run([(23, [c.m, c.U, s, masks, sum(s)]) for c, s, masks in mk])
    for (c, s, masks), out in zip(mk, outs):
        mstr = ["".join("*" if d < 0 else str(d) for d in msk) for msk in masks]
        case = {"circuit": c.describe(), "input": s, "masks": mstr}
        kept = [tuple(e[0]) for e in out]
        pex = {tuple(e[0]): abs(un_qi(e[1])) ** 2 / e[2] for e in out}
        ctx.case(["mask", gen.qmat_key(c.U), s, mstr], len(kept) > 0 and sum(s) >= 2, case)
        ctx.count("masks.%d" % len(masks))
        circuit = built.get(id(c)) or c.build()
        for name, B in engines(False).items():
            try:
                b = B()
                b.set_circuit(circuit)
                b.set_mask(mstr if len(mstr) > 1 else mstr[0])
                b.set_input_state(BS_(s))
                pd = b.prob_distribution()
                keys = [tuple(k) for k in pd.keys()]
                vals = {tuple(k): float(v) for k, v in pd.items()}
                nz = [t for t in kept if pex[t] > 1e-12]
                if [k for k in keys if vals[k] > 1e-12] != nz:
                    fail(f"masked-keys-{name}", f"{name}: masked prob_distribution keys/order differ", case, nz, keys)
                elif any(abs(vals.get(t, 0.0) - pex[t]) > 1e-9 for t in kept):
                    fail(f"masked-values-{name}", f"{name}: masked values differ from the unmasked ones", case, str(pex), str(vals))
                ap = [float(x) for x in b.all_prob()]
                if len(ap) != len(kept) or any(abs(x - pex[t]) > 1e-9 for x, t in zip(ap, kept)):
                    fail(f"masked-all_prob-{name}", f"{name}.all_prob under a mask is not aligned with the masked enumeration",
                         case, [pex[t] for t in kept], ap)
                for t in kept:
                    a = abs(complex(b.prob_amplitude(BS_(t)))) ** 2
                    if abs(a - pex[t]) > 1e-9:
                        fail(f"masked-amplitude-{name}", f"{name}: masked prob_amplitude differs", {**case, "output": list(t)}, pex[t], a)
                        break
            except Exception as e:
                fail(f"exception-masked-{name}-{type(e).__name__}", f"{name} raised {type(e).__name__}: {e}", case)
    ctx.streams["masks"] = len(mk)

    # ------------------------------------------------------------ one long-lived backend under a mask, photon number changing
    # (SLOS is left to C05: its cached levels are the subject there)
    seqs = []
    for i in range(ctx.n(25, 250)):
        c = rng.choice(circs)
        msk = [-1] * c.m
        for j in rng.shuffle(range(c.m))[:rng.rint(1, max(1, c.m - 1))]:
            msk[j] = rng.rint(0, 1)
        ns = rng.shuffle([1, 2, 3])[:rng.rint(2, 3)]
        seqs.append((c, msk, [gen.rand_state(rng, c.m, n) for n in ns if n <= nmax]))
    flat = [(c, msk, s) for c, msk, ss in seqs for s in ss]
    outs = iter(ctx.model.run([(23, [c.m, c.U, s, [msk], sum(s)]) for c, msk, s in flat]))
    for c, msk, ss in seqs:
        mstr = "".join("*" if d < 0 else str(d) for d in msk)
        circuit = built.get(id(c)) or c.build()
        names = ["Naive", "SLAP"] + (["MPS"] if c.mps_ok else [])
        backs = {}
        for name in names:
            b = engines(True)[name]()
            b.set_circuit(circuit)
            b.set_mask(mstr)
            backs[name] = b
        for idx, s in enumerate(ss):
            out = next(outs)
            case = {"circuit": c.describe(), "mask": mstr, "inputs so far on the same backend": ss[:idx + 1]}
            kept = [tuple(e[0]) for e in out]
            pex = {tuple(e[0]): abs(un_qi(e[1])) ** 2 / e[2] for e in out}
            ctx.case(["maskseq", gen.qmat_key(c.U), mstr, ss[:idx + 1]], idx >= 1, case)
            ctx.count("mask-sequence")
            for name, b in backs.items():
                tol = 1e-6 if name == "MPS" else 1e-9
                try:
                    if name == "MPS":
                        b.set_cutoff(max(1, (sum(s) + 1) ** (c.m // 2)))
                    b.set_input_state(BS_(s))
                    pd = b.prob_distribution()
                    vals = {tuple(k): float(v) for k, v in pd.items()}
                    keys = [k for k in (tuple(k) for k in pd.keys()) if vals[k] > 1e-12]
                    nz = [t for t in kept if pex[t] > 1e-12]
                    if keys != nz or any(abs(vals.get(t, 0.0) - pex[t]) > tol for t in kept):
                        fail(f"masked-reused-backend-{name}", f"{name}: masked distribution wrong when the same backend serves "
                             "inputs with different photon numbers", case, str(pex), str(vals))
                except Exception as e:
                    fail(f"exception-masked-reused-{name}-{type(e).__name__}", f"{name} raised {type(e).__name__}: {e}", case)
    ctx.streams["mask, reused backend, changing photon number"] = len(flat)
    ctx.log("mask streams done")

    # ------------------------------------------------------------ one long-lived engine, circuit and input changing
    # (the same engine object is given another circuit of the same size, the same input again, another input, ...;
    #  every answer must be the permanent for the CURRENT circuit and input)
    by_m = {}
    for c in circs:
        by_m.setdefault(c.m, []).append(c)
    hist = []
    _prof = {}
    for i in range(ctx.n(30, 300)):
        r = rng.fork(("history", i))
        m = r.choice([k for k, v in by_m.items() if len(v) >= 2])
        cs = r.shuffle(by_m[m])[:r.rint(2, 3)]
        ins = [gen.rand_state(r, m, r.rint(1, min(nmax, 2 if m >= 5 else nmax))) for _ in range(r.rint(1, 2))]
        if len(ins) == 2 and sum(ins[0]) == sum(ins[1]) and r.chance(2, 3):
            ins[1] = gen.rand_state(r, m, sum(ins[0]) - 1 if sum(ins[0]) > 1 else 2)     # two photon numbers on one engine
        steps = []
        for _ in range(r.rint(3, 6)):
            ci, si = r.below(len(cs)), r.below(len(ins))
            if steps and (ci, si) == steps[-1][:2]:
                ci = (ci + 1) % len(cs)
            steps.append((ci, si, r.choice(["amplitude", "probability", "distribution", "all_prob", "evolve"])))
        hist.append((cs, ins, steps))
    pairs = sorted({(hi, ci, si) for hi, (cs, ins, steps) in enumerate(hist) for ci, si, _ in steps})
    mouts = ctx.model.run([(20, [hist[hi][0][ci].m, hist[hi][0][ci].U, hist[hi][1][si]]) for hi, ci, si in pairs])
    mexp = {k: [(tuple(e[0]), un_qi(e[1]), e[2]) for e in o] for k, o in zip(pairs, mouts)}
    ctx.log(f"history stream: {len(pairs)} model answers")
    for hi, (cs, ins, steps) in enumerate(hist):
        built_cs = [built.get(id(c)) or c.build() for c in cs]
        names = ["Naive", "SLOS", "SLAP"] + (["MPS"] if all(c.mps_ok for c in cs) else []) + (
            ["Stepper", "Stepper(SLAP)"] if hi < ctx.n(5, 60) else [])       # the step-by-step simulator is slow
        case0 = {"circuits": [c.describe() for c in cs], "inputs": ins}
        ctx.case(["history", [gen.qmat_key(c.U) for c in cs], ins, steps], True, case0)
        ctx.count("history")
        for name in names:
            tol = 1e-6 if name == "MPS" else (5e-6 if name.startswith("Stepper") else 1e-9)
            import time as _t
            _t0 = _t.time()
            try:
                if name == "Stepper":
                    b = Stepper()
                elif name == "Stepper(SLAP)":
                    b = Stepper(pcvl.SLAPBackend())
                else:
                    b = engines(True)[name]()
                cur_c = None
                for k, (ci, si, q) in enumerate(steps):
                    case = {**case0, "engine": name, "steps so far (circuit, input, query)": steps[:k + 1]}
                    exp = mexp[(hi, ci, si)]
                    sstate = BS_(ins[si])
                    if cur_c != ci:
                        b.set_circuit(built_cs[ci])
                        cur_c = ci
                    bad = None
                    if name.startswith("Stepper"):
                        sv = b.evolve(sstate)
                        for t, anum, nrm in exp:
                            if not sv_close(complex(sv[BS_(t)]), anum, nrm, tol):
                                bad = (t, anum / math.sqrt(nrm), complex(sv[BS_(t)]))
                                break
                    else:
                        if name == "MPS":
                            b.set_cutoff(max(1, (sum(ins[si]) + 1) ** (cs[ci].m // 2)))
                        b.set_input_state(sstate)
                        # outputs with ANOTHER photon number (those of the other inputs of this history, and vacuum):
                        # amplitude and probability must be exactly zero whatever the engine computed before
                        foreign = [tuple(x) for x in ins if sum(x) != sum(ins[si])] + [tuple([0] * cs[ci].m)]
                        foreign += [tuple([sum(ins[si]) + 1] + [0] * (cs[ci].m - 1))]
                        if q == "amplitude":
                            for t, anum, nrm in exp:
                                a = complex(b.prob_amplitude(BS_(t)))
                                if not close(a * math.sqrt(nrm), anum, tol * math.sqrt(nrm)):
                                    bad = (t, anum / math.sqrt(nrm), a)
                                    break
                            for t in (foreign if bad is None else []):
                                a = complex(b.prob_amplitude(BS_(t)))
                                if abs(a) > tol:
                                    bad = (t, 0, a)
                                    break
                        elif q == "probability":
                            for t, anum, nrm in exp:
                                pr_ = float(b.probability(BS_(t)))
                                if abs(pr_ - abs(anum) ** 2 / nrm) > tol:
                                    bad = (t, abs(anum) ** 2 / nrm, pr_)
                                    break
                            for t in (foreign if bad is None else []):
                                pr_ = float(b.probability(BS_(t)))
                                if abs(pr_) > tol:
                                    bad = (t, 0, pr_)
                                    break
                        elif q == "distribution":
                            vals = {tuple(kk): float(v) for kk, v in b.prob_distribution().items()}
                            for t, anum, nrm in exp:
                                if abs(vals.get(t, 0.0) - abs(anum) ** 2 / nrm) > tol:
                                    bad = (t, abs(anum) ** 2 / nrm, vals.get(t, 0.0))
                                    break
                        elif q == "all_prob":
                            ap = [float(x) for x in b.all_prob()]
                            if len(ap) != len(exp):
                                bad = ("length", len(exp), len(ap))
                            else:
                                for x, (t, anum, nrm) in zip(ap, exp):
                                    if abs(x - abs(anum) ** 2 / nrm) > tol:
                                        bad = (t, abs(anum) ** 2 / nrm, x)
                                        break
                        else:
                            sv = b.evolve()
                            for t, anum, nrm in exp:
                                if not sv_close(complex(sv[BS_(t)]), anum, nrm, 10 * tol):
                                    bad = (t, anum / math.sqrt(nrm), complex(sv[BS_(t)]))
                                    break
                    if bad is not None:
                        fail(f"history-{name}", f"{name}: a long-lived engine given another circuit / input answers for an earlier "
                             f"one (step {k + 1}, query {q})", {**case, "output": bad[0]}, str(bad[1]), str(bad[2]))
                        break
            except Exception as e:
                fail(f"exception-history-{name}-{type(e).__name__}", f"{name} raised {type(e).__name__}: {e}", case0)
            _prof[name] = _prof.get(name, 0) + _t.time() - _t0
    ctx.streams["one long-lived engine, circuit and input changing"] = len(hist)
    ctx.log("history stream time per engine: " + str({k: round(v, 1) for k, v in _prof.items()}))

    sample = [(21, [c.m, c.U, s, t]) for c, s, t in wb[:3]]
    a = ctx.model.run(sample)
    b = ctx.model.vm_crosscheck(sample, "c02")
    ctx.count("vm_compute_crosscheck", len(sample))
    if a != b:
        fail("extraction-vs-vm_compute", "extracted runner and vm_compute disagree", {"n": len(sample)})


def corpus(rng):
    """Design-time witnesses: a non-symmetric BS.Ry circuit (MPS used the transposed 2x2 block)."""
    from ..common import Ang
    a1, a2, a3 = Ang(3, 4, 5), Ang(5, 12, 13), Ang(8, 15, 17)
    z = Ang(1, 0, 1)

    def bs(cv, t, ph):
        return gen.Leaf("BS", 2, gen.bs_exact(cv, t, ph), (cv, 2 * t.value, [p.value for p in ph]))
    c = Circ(3, [(0, bs(1, a1, [a2, z, z, z])), (1, bs(1, a2, [z, z, z, a3])),
                 (0, gen.Leaf("PS", 1, [[QI(a3.cos, a3.sin)]], (a3.value,))), (0, bs(2, a3, [z] * 4))], True)
    p = Circ(3, [(0, gen.Leaf("PERM", 3, gen.perm_exact([2, 0, 1]), ([2, 0, 1],))), (0, bs(1, a1, [z] * 4))], True)
    # a full-width block directly followed by a single-mode component (the circuit object is then shared by every engine:
    # computing its unitary must not modify the components), for both kinds of full-width leaves
    r = rng.fork("corpus-fullwidth")
    extra = []
    for m in (2, 3):
        u = gen.Leaf("U", m, gen.rand_unitary_exact(r, m), ())
        extra.append(Circ(m, [(0, u), (r.below(m), gen.Leaf("PS", 1, [[QI(a1.cos, a1.sin)]], (a1.value,))),
                              (0, bs(0, a2, [z] * 4))], False))
        pv = [1, 0] if m == 2 else [1, 2, 0]
        extra.append(Circ(m, [(0, gen.Leaf("PERM", m, gen.perm_exact(pv), (pv,))),
                              (r.below(m), gen.Leaf("PS", 1, [[QI(a3.cos, a3.sin)]], (a3.value,))),
                              (0, bs(1, a1, [a2, z, z, z]))], True))
    return [c, p] + extra


def replay(ctx, case):
    print(json.dumps(case, indent=1))
