"""C13 — polarisation-aware simulation equals spatial simulation on doubled modes."""
from __future__ import annotations
import json
import math
from fractions import Fraction

from ..common import QI, Ang, PYTH, rand_ang, un_q, un_qi, sx, parse_sx
from .. import gen

LEVEL = "proof"
RULE = ("circuits: trees (nesting depth <= 2) over m <= 4 spatial modes mixing WP / HWP / QWP (delta = pi/4: exact in "
        "Q(i)(sqrt 2)), PR, PBS, polarising Unitary blocks (2 and 4 sub-modes, non-symmetric) with BS (3 conventions, "
        "unequal phases), PS, PERM and spatial Unitary blocks, all at Pythagorean angles (exact cos/sin); sub-circuits "
        "without components included (nested on 1 / 2 modes, and the empty circuit). inputs: <= 3 photons, per mode "
        "nothing / n unannotated photons / one polarisation (labels H V D A L R or an elliptical Jones vector "
        "(cos a, e^{i phi} sin a) with rational components) / two orthogonal polarisations (H/V, D/A, L/R or an "
        "elliptical vector and its exact complement), photons WITHOUT P annotation (plain, or tagged {_:1}) sharing a mode "
        "with annotated ones of every label and numeric vectors (plain + H, plain + V, 2 plain + V, plain + (0, e^{i phi}), "
        "plain + H/V pair: accepted; plain + D/A/L/R/elliptical: rejected), the vacuum, and a malformed stream (non-orthogonal pairs, three "
        "vectors). Compared: compute_unitary(use_polarization=True) with the model matrix (1e-9), "
        "convert_polarized_state with the model (spatial input exact, preparation matrix 1e-6), "
        "SimulatorFactory.build(c[, Naive]).probs / .evolve and Processor.with_polarized_input + probs with the exact "
        "merged distribution of the model (1e-6; all outputs), exact mass 1, specification route = implementation "
        "route on a sample, label table and label vectors; SESSIONS: one long-lived PolarizationSimulator (built "
        "directly or by SimulatorFactory) receives a history of set_circuit / probs / evolve calls -- all-H and "
        "un-annotated inputs, other polarisations, pairs, the vacuum, rejected inputs, repeats of earlier inputs, "
        "circuit replacements -- and every answer is compared with the model of the stateful simulator (proved "
        "history-independent), a fresh simulator deciding the signature; PROCESSOR histories: Processor(SLOS | Naive, "
        "circuit[, noise]) with mutators before and AFTER with_polarized_input -- noise assigned (perfect NoiseModel, the "
        "same object, None), min_detected_photons_filter (0 .. n+1), further components added, post-selection set / "
        "cleared, the input replaced, intermediate probs() -- every probs() compared with the model of the processor's "
        "configuration state (proved: the circuit as it is then, the input given last), the simulator-level result on "
        "the same circuit and input deciding the signature. Non-trivial: an elliptical photon (both components "
        "non-zero, non-real phase) through a non-symmetric polarised matrix; distinct by (model tree, model input).")
TRUSTED = ["model: coq/Model/Polar.v, PolarX.v over the exact field Q(i)(sqrt 2) (coq/Lib/Q2.v); amplitude specification "
           "= multiset permanent of C02 (Lib/Permanent.v) generalised to arbitrary columns (permC)",
           "the underlying engines (SLOS, Naive) are C02's matter; here they are only the carrier of the comparison"]
ASSUMPTIONS = ["polarisation annotations are stored in single precision by exqalibur: distributions and preparation "
               "matrices are compared at 1e-6, circuit matrices at 1e-9",
               "the model decides equality / orthogonality of Jones vectors exactly; the implementation uses == on "
               "floats and |<v1,v2>| < 1e-6 (generated non-orthogonal pairs have |<v1,v2>| > 1e-2)"]
EXPLANATION = ("Three defects found by this check were repaired in /repo (e38f1486 empty circuit in polarised mode, "
               "53c82d36 vacuum input, 19d38de0 two polarisations in one mode rejected by a float32-vs-1e-8 unitarity "
               "assertion). The model follows the repaired code (the second column of a two-vector block is the "
               "complement of the first times the phase <c, v2>; proved equal to the second vector for normalised "
               "orthogonal pairs); the pre-repair configuration is kept as *_old with its refutation witnesses, "
               "which stay in the corpus as regression guards.")

SQ2 = math.sqrt(2.0)
# Function ids 1300-1304 = the model of the code as it is now (after the fix commits e38f1486, 53c82d36, 19d38de0 in
# /repo); 1310-1313 = the historical model of the code before them (kept for the *_old_code theorems).
F_UNITARY, F_CONVERT, F_PROBS, F_SPEC = 1300, 1301, 1302, 1303
# signatures of the three repaired defects (known_findings.json: fixed). Fixed entries suppress nothing: if one of
# them comes back the corpus witnesses below fail under these (or a mismatch) signatures and the check reports a VIOLATION.
SIG_EMPTY = "compute_unitary(use_polarization=True):empty-circuit-identity-not-doubled"
SIG_TWOPOL = "probs:two-polarisations-in-one-mode:AssertionError-not-unitary"
SIG_VACUUM = "probs:vacuum-polarised-input:ValueError-matmul-None"


# ------------------------------------------------------------------ exact numbers of Q(i)(sqrt 2)
def q2(a=0, b=0):
    return [a if isinstance(a, QI) else QI(a), b if isinstance(b, QI) else QI(b)]


def parse_q2(x):
    return [QI(un_q(x[0][0]), un_q(x[0][1])), QI(un_q(x[1][0]), un_q(x[1][1]))]


def un_q2(x) -> complex:
    return un_qi(x[0]) + SQ2 * un_qi(x[1])


def un_p2(x) -> float:
    return float(un_q(x[0])) + SQ2 * float(un_q(x[1]))


def c_of_q2(z) -> complex:
    return complex(z[0]) + SQ2 * complex(z[1])


RH = q2(0, Fraction(1, 2))       # 1/sqrt 2


def ph(a: Ang):
    return q2(QI(a.cos, a.sin))


# ------------------------------------------------------------------ circuits
class Node:
    """leaf: tree = model encoding, src = python expression building the perceval component."""

    def __init__(self, k, tree, src, pol=False, items=None, kind="leaf"):
        self.k, self.tree, self.src, self.pol, self.items, self.kind = k, tree, src, pol, items, kind

    def model(self):
        if self.items is None:
            return self.tree
        return [1, self.k, [[off, nd.model()] for off, nd in self.items]]

    def source(self, top=True):
        if self.items is None:
            return self.src
        s = f"Circuit({self.k})"
        for off, nd in self.items:
            s += f".add({off}, {nd.source(False)}, merge=False)"
        return s

    def leaves(self):
        if self.items is None:
            return [self]
        return [l for _, nd in self.items for l in nd.leaves()]

    def has_empty(self):
        if self.items is None:
            return False
        return len(self.items) == 0 or any(nd.has_empty() for _, nd in self.items)


def np_src(U):
    rows = ", ".join("[" + ", ".join(repr(complex(x)) for x in row) + "]" for row in U)
    return f"Matrix(np.array([{rows}], dtype=complex))"


def rand_leaf(rng, maxk, polar_only=False):
    kinds = ["WP", "WP", "HWP", "QWP", "PR", "PBS", "PBS", "PU"]
    if not polar_only:
        kinds += ["BS", "BS", "PS", "PERM", "U"]
    kinds = [k for k in kinds if maxk >= 2 or k not in ("PBS", "BS", "PERM")]
    kind = rng.choice(kinds)
    if kind in ("WP", "HWP", "QWP"):
        b = rand_ang(rng, allow_trivial=rng.chance(1, 8))          # 2 * xsi
        xsi = b.value / 2
        if kind == "WP":
            d = rand_ang(rng, allow_trivial=rng.chance(1, 8))
            return Node(1, [0, 2, q2(d.cos), q2(d.sin), q2(b.cos), q2(b.sin)], f"WP({d.value!r}, {xsi!r})", True, kind=kind)
        if kind == "HWP":
            return Node(1, [0, 2, q2(0), q2(1), q2(b.cos), q2(b.sin)], f"HWP({xsi!r})", True, kind=kind)
        return Node(1, [0, 2, RH, RH, q2(b.cos), q2(b.sin)], f"QWP({xsi!r})", True, kind=kind)
    if kind == "PR":
        d = rand_ang(rng, allow_trivial=rng.chance(1, 8))
        return Node(1, [0, 3, q2(d.cos), q2(d.sin)], f"PR({d.value!r})", True, kind=kind)
    if kind == "PBS":
        return Node(2, [0, 4], "PBS()", True, kind=kind)
    if kind == "PU":
        k = rng.rint(1, min(2, maxk))
        U = gen.rand_unitary_exact(rng, 2 * k)
        return Node(k, [0, 1, k, [[q2(x) for x in row] for row in U]], f"Unitary({np_src(U)}, use_polarization=True)", True, kind=kind)
    if kind == "BS":
        cv = rng.below(3)
        t = rand_ang(rng, allow_trivial=rng.chance(1, 8))
        p = [rand_ang(rng) if rng.chance(1, 2) else Ang(1, 0, 1) for _ in range(4)]
        src = (f"BS({2 * t.value!r}, {p[0].value!r}, {p[1].value!r}, {p[2].value!r}, {p[3].value!r}, "
               f"convention=BSConvention.{gen.CONV[cv]})")
        return Node(2, [0, 5, cv, q2(t.cos), q2(t.sin), ph(p[0]), ph(p[1]), ph(p[2]), ph(p[3])], src, kind=kind)
    if kind == "PS":
        p = rand_ang(rng)
        return Node(1, [0, 6, ph(p)], f"PS({p.value!r})", kind=kind)
    if kind == "PERM":
        n = rng.rint(2, min(maxk, 4))
        p = rng.shuffle(range(n))
        return Node(n, [0, 7, list(p)], f"PERM({list(p)})", kind=kind)
    k = rng.rint(1, min(maxk, 3))
    U = gen.rand_unitary_exact(rng, k)
    return Node(k, [0, 0, k, [[q2(x) for x in row] for row in U]], f"Unitary({np_src(U)})", kind=kind)


def rand_tree(rng, m, depth=0, empties=False, need_polar=True):
    items = []
    n_items = rng.rint(1, 2 + m) if depth == 0 else rng.rint(1, 3)
    for _ in range(n_items):
        if depth < 2 and m >= 1 and rng.chance(1, 5):
            k = rng.rint(1, m)
            if empties and rng.chance(1, 2):
                sub = Node(k, None, None, items=[], kind="sub")
            else:
                sub = rand_tree(rng, k, depth + 1, empties, need_polar=False)
            items.append((rng.rint(0, m - k), sub))
        else:
            lf = rand_leaf(rng, m)
            items.append((rng.rint(0, m - lf.k), lf))
    nd = Node(m, None, None, items=items, kind="sub")
    if need_polar and not any(l.pol for l in nd.leaves()):
        lf = rand_leaf(rng, m, polar_only=True)
        items.insert(rng.rint(0, len(items)), (rng.rint(0, m - lf.k), lf))
    return nd


def build(src):
    import numpy as np
    import perceval as pcvl
    from perceval.components import BS, PS, PERM, Unitary, WP, HWP, QWP, PR, PBS
    from perceval.components.unitary_components import BSConvention
    env = dict(np=np, Circuit=pcvl.Circuit, Matrix=pcvl.Matrix, BS=BS, PS=PS, PERM=PERM, Unitary=Unitary, WP=WP,
               HWP=HWP, QWP=QWP, PR=PR, PBS=PBS, BSConvention=BSConvention)
    return eval(src, env)


# ------------------------------------------------------------------ polarisations and inputs
class Pol:
    def __init__(self, key, eh, ev, theta, phi, elliptical=False, plain=False):
        self.key, self.eh, self.ev, self.theta, self.phi, self.elliptical = key, eh, ev, theta, phi, elliptical
        self.plain = plain          # read back from a photon without P annotation: the MODEL decides what it means

    def jones(self):
        return [] if self.plain else [self.eh, self.ev]


LABEL_ORDER = ["H", "V", "D", "A", "R", "L"]         # order of coq/Model/PolarX.v all_labels
LABEL_ANGLES = {"H": (0.0, 0.0), "V": (math.pi, 0.0), "D": (math.pi / 2, 0.0), "A": (math.pi / 2, math.pi),
                "R": (math.pi / 2, 3 * math.pi / 2), "L": (math.pi / 2, math.pi / 2)}


def make_elliptical(al: Ang, p_cos: Fraction, p_sin: Fraction) -> Pol:
    theta = 2 * math.atan2(float(al.sin), float(al.cos))
    phi = math.atan2(float(p_sin), float(p_cos)) % (2 * math.pi)
    eh = q2(al.cos)
    ev = q2(QI(p_cos * al.sin, p_sin * al.sin))
    ell = al.cos != 0 and al.sin != 0 and p_sin != 0
    return Pol(f"({theta!r},{phi!r})", eh, ev, theta, phi, ell)


def rand_elliptical(rng) -> Pol:
    a, b, c = rng.choice(PYTH)
    if rng.chance(1, 2):
        a, b = b, a
    p = rand_ang(rng, allow_trivial=rng.chance(1, 6))
    return make_elliptical(Ang(a, b, c), p.cos, p.sin)


def complement(pol_al_p):
    """exact orthogonal complement of (cos a, e^{i phi} sin a): (sin a, -e^{i phi} cos a)."""
    al, pc, ps = pol_al_p
    al2 = Ang.__new__(Ang)
    al2.cos, al2.sin = al.sin, al.cos
    al2.value = math.atan2(float(al2.sin), float(al2.cos))
    return make_elliptical(al2, -pc, -ps)


class InputSpec:
    """modes: list of lists of Pol (None = unannotated photon)."""

    def __init__(self, modes):
        self.modes = modes

    def string(self):
        out = []
        for md in self.modes:
            if not md:
                out.append("0")
            elif all(p is None for p in md):
                out.append(str(len(md)))
            else:
                # annotated photons, then photons carrying another tag but no P, then the count of plain photons
                txt = "".join("{P:%s}" % p.key for p in md if p is not None and p != "tag")
                txt += "{_:1}" * sum(1 for p in md if p == "tag")
                nplain = sum(1 for p in md if p is None)
                out.append(txt + (str(nplain) if nplain else ""))
        return "|" + ",".join(out) + ">"

    def n(self):
        return sum(len(md) for md in self.modes)


def rand_input(rng, m, labels, nmax, kind):
    """kind: single | pair | vacuum | bad"""
    modes = [[] for _ in range(m)]
    budget = rng.rint(1, nmax)
    H = labels["H"]
    if kind == "vacuum":
        return InputSpec(modes)
    if kind == "bad" and nmax >= 3:
        budget = max(budget, 3)
    if kind == "mixed":
        # one spatial mode holds photons WITHOUT P annotation (plain, or another tag only) together with annotated ones
        budget = max(budget, 2)
        k = rng.below(m)
        x = rng.below(12)
        room = max(1, budget - 1)
        if x < 3:
            ann = [labels[rng.choice(["H", "V"])]] * rng.rint(1, min(2, room))
        elif x < 5:
            p = rand_ang(rng, allow_trivial=False)
            ann = [make_elliptical(Ang(0, 1, 1), p.cos, p.sin)] * rng.rint(1, min(2, room))     # (0, e^{i phi}): orthogonal to H
        elif x < 7 and budget >= 3:
            ann = rng.shuffle([labels["H"], labels["V"]] + ([rng.choice([labels["H"], labels["V"]])] if budget >= 4 else []))
        elif x < 10:
            ann = [labels[rng.choice(["D", "A", "L", "R"])]] * rng.rint(1, min(2, room))      # not orthogonal to H: rejected
        elif x < 11:
            ann = [rand_elliptical(rng)]
        else:
            ann = [labels["D"], labels["A"]] if budget >= 3 else [labels["A"]]
        nplain = rng.rint(1, max(1, min(2, budget - len(ann))))
        modes[k] = ann + [("tag" if rng.chance(1, 4) else None) for _ in range(nplain)]
        budget -= len(modes[k])
        for k2 in rng.shuffle(range(m)):
            if k2 != k and budget > 0 and rng.chance(1, 2):
                c = rng.rint(1, min(2, budget))
                modes[k2] = [None] * c if rng.chance(1, 3) else [rng.choice([labels[rng.choice(LABEL_ORDER)], rand_elliptical(rng)])] * c
                budget -= c
        return InputSpec(modes)

    def one():
        r = rng.below(10)
        if r < 5:
            return rand_elliptical(rng)
        return labels[rng.choice(LABEL_ORDER)]

    special_done = False
    for k in rng.shuffle(range(m)):
        if budget <= 0:
            break
        if kind in ("pair", "bad") and not special_done and budget >= 2:
            special_done = True
            if kind == "pair":
                if rng.chance(1, 3):
                    a, b, c = rng.choice(PYTH)
                    p = rand_ang(rng, allow_trivial=False)
                    al = Ang(a, b, c)
                    v1 = make_elliptical(al, p.cos, p.sin)
                    v2 = complement((al, p.cos, p.sin))
                else:
                    x, y = rng.choice([("H", "V"), ("D", "A"), ("L", "R")])
                    v1, v2 = labels[x], labels[y]
                    if rng.chance(1, 2):
                        v1, v2 = v2, v1
                cnt = [v1, v2] + [rng.choice([v1, v2]) for _ in range(rng.rint(0, budget - 2))]
            else:
                if rng.chance(2, 3) and budget >= 3:
                    x, y = rng.choice([("H", "V"), ("D", "A"), ("D", "A"), ("D", "A"), ("L", "R")])
                    z = rng.choice([l for l in LABEL_ORDER if l not in (x, y)])
                    cnt = [labels[x], labels[y], labels[z] if rng.chance(3, 4) else rand_elliptical(rng)]
                else:
                    v1 = one()
                    v2 = rng.choice([labels["D"], labels["R"], labels["H"]])
                    if v2.key == v1.key or abs(inner(v1, v2)) < 1e-2:
                        v1, v2 = labels["H"], labels["D"]
                    cnt = [v1, v2]
            modes[k] = rng.shuffle(cnt)
            budget -= len(cnt)
            continue
        if rng.chance(1, 3):
            continue
        c = rng.rint(1, min(2, budget))
        if rng.chance(1, 6):
            modes[k] = [None] * c
        else:
            modes[k] = [one()] * c
        budget -= c
    if all(not md for md in modes):
        modes[rng.below(m)] = [one()]
    return InputSpec(modes)


def inner(v1: Pol, v2: Pol) -> complex:
    return (c_of_q2(v1.eh).conjugate() * c_of_q2(v2.eh) + c_of_q2(v1.ev).conjugate() * c_of_q2(v2.ev))


def read_back(state, spec: InputSpec, labels):
    """Per mode, the photons' exact Jones vectors in the order of BasicState.get_photon_annotation."""
    pool = {}
    for md in spec.modes:
        for p in md:
            if p is not None and p != "tag":
                pool[p.key] = p
    out, idx = [], 0
    for k in range(state.m):
        row = []
        for _ in range(state[k]):
            z = complex(state.get_photon_annotation(idx).get("P", -9j))
            idx += 1
            if z == -9j:
                h = labels["H"]
                row.append(Pol("H", h.eh, h.ev, 0.0, 0.0, plain=True))
                continue
            best = min(pool.values(), key=lambda p: abs(p.theta - z.real) + abs(p.phi - z.imag))
            if abs(best.theta - z.real) + abs(best.phi - z.imag) > 1e-5:
                raise RuntimeError(f"annotation {z} not in the generated pool")
            row.append(best)
        out.append(row)
    return out


def model_input(rows):
    return [[p.jones() for p in row] for row in rows]


def mixed_mode(rows):
    """some mode holds a photon without P annotation together with a photon of another polarisation"""
    return any(any(p.plain for p in row) and any(p.key != "H" for p in row) for row in rows)


def classes(rows):
    return max((len({p.key for p in row}) for row in rows), default=0)


# ------------------------------------------------------------------ checks against the implementation
def check_matrix(node: Node, mout):
    """compute_unitary(use_polarization=True) against model answer [wf, status, dim, matrix]. -> failures"""
    import numpy as np
    fails = []
    wf, status, dim, M = mout
    case_exp = None
    try:
        c = build(node.source())
        U = np.array(c.compute_unitary(use_polarization=True))
        obs = ("matrix", U)
    except Exception as e:
        obs = ("raises", f"{type(e).__name__}: {e}")
    if not wf:
        return [("model-tree-ill-formed", "generator produced an ill-formed tree", None, None)]
    if status == 1:
        if obs[0] != "raises":
            fails.append(("matrix-model-raises-impl-returns", "model predicts a numpy broadcast error, implementation returned a matrix", "raises", str(obs[1].shape)))
        else:
            fails.append((SIG_EMPTY, "a polarised circuit containing an empty sub-circuit on >= 2 modes cannot be evaluated (eye(m) written into a 2m x 2m block)", "a unitary 2m x 2m matrix", obs[1]))
        return fails
    if obs[0] == "raises":
        return [("matrix-exception", "compute_unitary(use_polarization=True) raised", "matrix", obs[1])]
    U = obs[1]
    Mx = np.array([[un_q2(e) for e in row] for row in M], dtype=complex).reshape(dim, dim)
    if U.shape != Mx.shape:
        return [("matrix-shape", "shape differs from the model", str(Mx.shape), str(U.shape))]
    if not np.allclose(U, Mx, atol=1e-9, rtol=0):
        return [("matrix-values", "polarised circuit matrix differs from the model (ordered product of doubled / polarising leaves)", str(np.round(Mx, 6).tolist()), str(np.round(U, 6).tolist()))]
    # the property itself: a 2m x 2m unitary
    if dim != 2 * node.k:
        fails.append((SIG_EMPTY, "the polarised matrix of a circuit without components is m x m, not 2m x 2m", f"{2 * node.k}x{2 * node.k} identity", f"{dim}x{dim}"))
    elif not np.allclose(U @ U.conj().T, np.eye(dim), atol=1e-9, rtol=0):
        if node.has_empty():
            fails.append((SIG_EMPTY, "the polarised matrix of a circuit containing an empty 1-mode sub-circuit is not unitary (1x1 identity broadcast over a 2x2 block)", "unitary", str(np.round(U @ U.conj().T, 6).tolist())))
        else:
            fails.append(("matrix-not-unitary", "polarised matrix not unitary", "unitary", str(np.round(U, 6).tolist())))
    return fails


def check_convert(state, mout):
    import numpy as np
    from perceval.utils import convert_polarized_state
    code = mout[0]
    try:
        si, prep = convert_polarized_state(state)
        obs = ("ok", list(si), prep)
    except ValueError as e:
        obs = ("ValueError", str(e))
    except Exception as e:
        return [("convert-exception", f"convert_polarized_state raised {type(e).__name__}: {e}", None, None)]
    if code in (1, 2):
        want = "more than 2" if code == 1 else "non orthogonal"
        if obs[0] != "ValueError" or want not in obs[1]:
            return [("convert-error-kind", "convert_polarized_state did not raise the ValueError the model predicts", want, str(obs[:2]))]
        return []
    if obs[0] != "ok":
        return [("convert-unexpected-error", "convert_polarized_state rejected an input the model accepts", "ok", obs[1])]
    if obs[1] != mout[1]:
        return [("convert-spatial-input", "spatial input differs from the model", str(mout[1]), str(obs[1]))]
    if code == 3:
        if obs[2] is not None:
            return [("convert-vacuum-matrix", "model predicts no preparation matrix for the vacuum", "None", "matrix")]
        return []
    if obs[2] is None:
        return [("convert-no-preparation-matrix", "convert_polarized_state returned no preparation matrix (vacuum)", "identity", "None")]
    P = np.array(obs[2])
    Pm = np.array([[un_q2(e) for e in row] for row in mout[2]], dtype=complex)
    if P.shape != Pm.shape or not np.allclose(P, Pm, atol=1e-6, rtol=0):
        return [("convert-prep-matrix", "preparation matrix differs from the model", str(np.round(Pm, 6).tolist()), str(np.round(P, 6).tolist()))]
    return []


def spatial_of(st):
    """output of evolve: photons annotated P:H / P:V -> occupation of the 2m sub-modes"""
    t = [0] * (2 * st.m)
    idx = 0
    for k in range(st.m):
        for _ in range(st[k]):
            a = str(st.get_photon_annotation(idx))
            idx += 1
            t[2 * k + (1 if "V" in a else 0)] += 1
    return tuple(t)


def check_probs(node: Node, state, rows, mout, extra=True):
    """SimulatorFactory.build(c).probs(state) etc. against the model answer of 1302."""
    import numpy as np
    import perceval as pcvl
    from perceval.simulators import SimulatorFactory
    status = mout[0]
    two = classes(rows) >= 2
    try:
        c = build(node.source())
    except Exception as e:
        return [("build-exception", f"{type(e).__name__}: {e}", None, None)]

    def run(fn):
        try:
            return ("ok", fn())
        except Exception as e:
            return (type(e).__name__, str(e))
    res = run(lambda: SimulatorFactory.build(c).probs(state))
    if status in (1, 4):
        return [("model-status", "model reports a failing circuit evaluation (cannot happen in the current configuration)", 0, status)]
    if status == 2:
        if res[0] != "ValueError":
            return [("probs-bad-input-accepted", "non-orthogonal / more than two polarisations in a mode not rejected with ValueError", "ValueError", str(res)[:300])]
        return []
    if status == 3:
        zero = tuple([0] * state.m)
        if res[0] == "ok" and {tuple(k): float(v) for k, v in res[1].items()} == {zero: 1.0}:
            return []
        return [(SIG_VACUUM, "a polarised circuit cannot be simulated on the vacuum: convert_polarized_state returns no preparation matrix and `upol @ None` raises", "{|0,..,0>: 1}", str(res)[:300])]
    pexp = {tuple(e[0]): un_p2(e[1]) for e in mout[1]}
    fails = []
    if un_q(mout[3][0]) != 1 or un_q(mout[3][1]) != 0:
        fails.append(("model-mass", "exact mass of the model distribution is not 1", 1, str(mout[3])))
    if res[0] != "ok":
        if two and res[0] == "AssertionError" and "unitary" in res[1]:
            return fails + [(SIG_TWOPOL, "two orthogonal polarisations in one mode (H/V, D/A, L/R, or a vector and its complement) are rejected: annotations are single precision, the preparation matrix is unitary only to ~4e-8 and Unitary() asserts np.allclose at 1e-8", str({k: round(v, 6) for k, v in pexp.items() if v > 1e-9}), f"{res[0]}: {res[1]}")]
        return fails + [("probs-exception-" + res[0], f"probs raised {res[0]}: {res[1]}", None, None)]

    def cmp(dist, tag):
        vals = {tuple(k): float(v) for k, v in dist.items()}
        bad = [t for t in set(vals) | set(pexp) if abs(vals.get(t, 0.0) - pexp.get(t, 0.0)) > 1e-6]
        if bad:
            t = sorted(bad)[0]
            fails.append((f"distribution-{tag}", f"{tag}: output distribution differs from the specification (sum over the two sub-modes of |perm|^2)", f"{list(t)}: {pexp.get(t, 0.0)}", f"{list(t)}: {vals.get(t, 0.0)}"))
    cmp(res[1], "SimulatorFactory.probs")
    if extra and not fails:
        r2 = run(lambda: SimulatorFactory.build(c, backend="Naive").probs(state))
        if r2[0] != "ok":
            fails.append(("probs-naive-exception-" + r2[0], r2[1], None, None))
        else:
            cmp(r2[1], "SimulatorFactory(Naive).probs")

        def proc():
            p = pcvl.Processor("SLOS", c)
            p.with_polarized_input(state)
            p.min_detected_photons_filter(0)
            return p.probs()["results"]
        r3 = run(proc) if state.has_polarization else ("skip", None)   # documented precondition of with_polarized_input
        if r3[0] == "skip":
            pass
        elif r3[0] != "ok":
            fails.append(("processor-exception-" + r3[0], r3[1], None, None))
        else:
            cmp(r3[1], "Processor.with_polarized_input.probs")
        r4 = run(lambda: SimulatorFactory.build(c).evolve(state))
        if r4[0] != "ok":
            fails.append(("evolve-exception-" + r4[0], r4[1], None, None))
        else:
            aexp = {tuple(e[0]): un_q2(e[1]) / math.sqrt(e[2]) for e in mout[2]}
            seen = {}
            for st, a in r4[1]:
                seen[spatial_of(st)] = seen.get(spatial_of(st), 0) + complex(a)
            bad = [t for t in set(seen) | set(aexp) if abs(seen.get(t, 0) - aexp.get(t, 0)) > 2e-6]
            if bad:
                t = sorted(bad)[0]
                fails.append(("evolve-amplitude", "evolve: amplitude on an H/V-annotated output differs from the specification", f"{list(t)}: {aexp.get(t, 0)}", f"{list(t)}: {seen.get(t, 0)}"))
    return fails


# ------------------------------------------------------------------ driver
def get_labels(ctx):
    out = ctx.model.run([(1304, [])])[0]
    labels, table = {}, {}
    for name, row in zip(LABEL_ORDER, out):
        a, b, jl, js = row
        th, phv = LABEL_ANGLES[name]
        labels[name] = Pol(name, parse_q2(jl[0]), parse_q2(jl[1]), th, phv)
        table[name] = (a, b, jl, js)
    return labels, table


def run(ctx):
    import numpy as np
    import sympy as sp
    import perceval as pcvl
    from perceval.utils.polarization import POLARIZATION_MAPPING, Polarization
    rng = ctx.rng
    labels, table = get_labels(ctx)

    # ---------------------------------------------------------------- labels
    for name in LABEL_ORDER:
        a, b, jl, js = table[name]
        case = {"label": name}
        ctx.case(["label", name], name not in ("H", "V"), None)
        th, phv = POLARIZATION_MAPPING[name]
        if sp.simplify(th - a * sp.pi / 2) != 0 or sp.simplify(phv - b * sp.pi / 2) != 0:
            ctx.fail("label-table", "POLARIZATION_MAPPING differs from the model's table (units of pi/2)", case, [a, b], [str(th), str(phv)])
        if jl != js:
            ctx.fail("label-model", "model: jones_label differs from jones_standard (proved equal)", case)
        eh, ev = Polarization(name).project_eh_ev()
        if abs(complex(eh) - un_q2(js[0])) > 1e-12 or abs(complex(ev) - un_q2(js[1])) > 1e-12:
            ctx.fail("label-numeric", "Polarization(label).project_eh_ev() is not the standard Jones vector", case, [str(un_q2(js[0])), str(un_q2(js[1]))], [str(eh), str(ev)])
        seh, sev = Polarization(name).project_eh_ev(use_symbolic=True)

        def sym(z):
            z = parse_q2(z)
            return (sp.Rational(z[0].re.numerator, z[0].re.denominator) + sp.I * sp.Rational(z[0].im.numerator, z[0].im.denominator)
                    + sp.sqrt(2) * (sp.Rational(z[1].re.numerator, z[1].re.denominator) + sp.I * sp.Rational(z[1].im.numerator, z[1].im.denominator)))
        if sp.simplify(seh - sym(js[0])) != 0 or sp.simplify(sev - sym(js[1])) != 0:
            ctx.fail("label-symbolic", "symbolic project_eh_ev is not the standard Jones vector", case, None, [str(seh), str(sev)])
        st = pcvl.BasicState("|{P:%s}>" % name)
        z = complex(st.get_photon_annotation(0).get("P", -9j))
        if abs(z.real - LABEL_ANGLES[name][0]) > 1e-6 or abs(z.imag - LABEL_ANGLES[name][1]) > 1e-6:
            ctx.fail("label-annotation", "annotation P:<label> does not carry the angles of the table", case, LABEL_ANGLES[name], str(z))
        ctx.count("label")
    ctx.streams["labels"] = len(LABEL_ORDER)

    mmax = 4
    nmax = 3     # four photons on eight doubled modes in the exact tower cost tens of minutes per request: not worth it
    sampled = set()

    def one_sample(stream, ok, d):
        if ok and stream not in sampled:
            sampled.add(stream)
            return d
        return None
    reported = set()

    def report(stream, fails, node, spec, extra_case=None, shrinker=None):
        for sig, what, exp, obs in fails:
            case = {"stream": stream, "circuit": node.source() if node else None,
                    "state": spec.string() if spec else None,
                    "model_tree": sx(node.model()) if node else None}
            if extra_case:
                case.update(extra_case)
            if shrinker is not None and sig not in reported:
                try:
                    node2, spec2, f2 = shrinker(sig)
                    if f2 is not None:
                        what, exp, obs = f2[1], f2[2], f2[3]
                        case.update({"circuit": node2.source() if node2 else None, "state": spec2.string() if spec2 else None,
                                     "model_tree": sx(node2.model()) if node2 else None, "shrunk": True})
                except Exception as e:      # shrinking is best effort
                    case["shrink_error"] = f"{type(e).__name__}: {e}"
            reported.add(sig)
            ctx.fail(sig, what, case, exp, obs)

    # ---------------------------------------------------------------- matrices
    n_mat = ctx.n(150, 1200)
    trees = [Node(1, None, None, items=[], kind="sub"), Node(3, None, None, items=[], kind="sub")]
    trees += corpus_trees()
    for i in range(n_mat):
        r = rng.fork(("mat", i))
        m = r.rint(1, mmax)
        trees.append(rand_tree(r, m, empties=r.chance(1, 6), need_polar=r.chance(5, 6)))
    outs = ctx.model.run([(F_UNITARY, t.model()) for t in trees])

    def mat_probe(t):
        return check_matrix(t, ctx.model.run([(F_UNITARY, t.model())])[0])

    for t, out in zip(trees, outs):
        fails = check_matrix(t, out)
        lv = t.leaves()
        nontriv = any(l.pol and l.kind != "PBS" for l in lv) and any(not l.pol for l in lv) and len(lv) >= 3
        ctx.case(["matrix", sx(t.model())], nontriv, one_sample("matrix", nontriv, {"stream": "matrix", "circuit": t.source()[:400]}))
        ctx.count("matrix.m%d" % t.k)
        if t.has_empty():
            ctx.count("matrix.with-empty-subcircuit")
        for l in lv:
            ctx.count("leaf." + l.kind)
        if fails:
            report("matrix", fails, t, None, shrinker=lambda sig, t=t: shrink_tree(t, None, lambda a, b: mat_probe(a), sig))
    ctx.streams["compute_unitary(use_polarization=True)"] = len(trees)

    # ---------------------------------------------------------------- conversion of polarised states
    n_conv = ctx.n(150, 1000)
    convs = []
    for i in range(n_conv):
        r = rng.fork(("conv", i))
        m = r.rint(1, mmax)
        kind = r.choice(["single"] * 3 + ["pair"] * 3 + ["mixed"] * 4 + ["bad"] * 2 + ["vacuum"])
        spec = rand_input(r, m, labels, nmax + 1, kind)
        state = pcvl.BasicState(spec.string())
        rows = read_back(state, spec, labels)
        convs.append((spec, state, rows, kind))
    outs = ctx.model.run([(F_CONVERT, model_input(rows)) for _, _, rows, _ in convs])
    for (spec, state, rows, kind), out in zip(convs, outs):
        fails = check_convert(state, out)
        nt = classes(rows) >= 2 or any(p.elliptical for row in rows for p in row) or mixed_mode(rows)
        ctx.case(["convert", sx(model_input(rows))], nt,
                 one_sample("convert", nt and out[0] == 0, {"stream": "convert", "state": spec.string(), "spatial_input": out[1]}))
        ctx.count("convert." + kind)
        ctx.count("convert.code%d" % out[0])
        if fails:
            report("convert", fails, None, spec)
    ctx.streams["convert_polarized_state"] = len(convs)

    # ---------------------------------------------------------------- distributions
    n_sim = ctx.n(160, 1000)
    sims = corpus_sims(labels)
    for i in range(n_sim):
        r = rng.fork(("sim", i))
        m = r.rint(1, mmax)
        tree = rand_tree(r, m, empties=False, need_polar=True)
        kind = r.choice(["single"] * 4 + ["pair"] * 4 + ["mixed"] * 4 + ["bad"]) if i % 25 else "vacuum"
        spec = rand_input(r, m, labels, nmax if m <= 3 else min(nmax, 3), kind)
        sims.append((tree, spec, kind))
    prepared = []
    for tree, spec, kind in sims:
        state = pcvl.BasicState(spec.string())
        rows = read_back(state, spec, labels)
        prepared.append((tree, spec, kind, state, rows))
    outs = ctx.model.run([(F_PROBS, [t.model(), model_input(rows)]) for t, _, _, _, rows in prepared])

    def sim_probe(t, sp_):
        st = pcvl.BasicState(sp_.string())
        rw = read_back(st, sp_, labels)
        o = ctx.model.run([(F_PROBS, [t.model(), model_input(rw)])])[0]
        return check_probs(t, st, rw, o, extra=True)

    spec_sample = []
    for j, ((tree, spec, kind, state, rows), out) in enumerate(zip(prepared, outs)):
        fails = check_probs(tree, state, rows, out, extra=(j % 2 == 0))
        ell = any(p.elliptical for row in rows for p in row) or mixed_mode(rows)
        nontriv = False
        if out[0] == 0 and ell:
            U = np.array(build(tree.source()).compute_unitary(use_polarization=True))
            nontriv = not np.allclose(U, U.T, atol=1e-9)
        ctx.case(["probs", sx(tree.model()), sx(model_input(rows))], nontriv,
                 one_sample("probs", nontriv and spec.n() >= 2, {"stream": "probs", "circuit": tree.source()[:300], "state": spec.string(),
                            "distribution": {str(list(e[0])): round(un_p2(e[1]), 9) for e in out[1] if un_p2(e[1]) > 1e-9} if out[0] == 0 else None}))
        ctx.count("probs." + kind)
        ctx.count("probs.status%d" % out[0])
        ctx.count("probs.n%d" % spec.n())
        if out[0] == 0 and len(spec_sample) < (12 if ctx.quick() else 60) and state.m <= 3:
            spec_sample.append(((tree, rows), out))
        if fails:
            report("probs", fails, tree, spec, shrinker=lambda sig, t=tree, s=spec: shrink_tree(t, s, sim_probe, sig))
    ctx.streams["probs / evolve / Processor"] = len(prepared)

    # ---------------------------------------------------------------- sessions: one long-lived simulator
    n_sess = ctx.n(40, 300)
    sessions = corpus_sessions(labels)
    for i in range(n_sess):
        sessions.append(rand_session(rng.fork(("sess", i)), labels, nmax))
    n_q = 0
    for ops in sessions:
        fails, nq, info = run_session(ctx, ops, labels)
        n_q += nq
        ctx.case(["session", info["canon"]], info["nontrivial"], one_sample("session", info["nontrivial"], {"stream": "session", "history": describe_session(ops)}))
        ctx.count("session.queries", nq)
        for k, v in info["kinds"].items():
            ctx.count("session." + k, v)
        for sig, what, exp, obs, idx in fails:
            case = {"stream": "session", "history": describe_session(ops), "failing_step": idx}
            if sig not in reported:
                try:
                    ops2, f2 = shrink_session(ctx, ops, labels, sig)
                    if f2 is not None:
                        what, exp, obs = f2[1], f2[2], f2[3]
                        case = {"stream": "session", "history": describe_session(ops2), "failing_step": f2[4], "shrunk": True}
                except Exception as e:
                    case["shrink_error"] = f"{type(e).__name__}: {e}"
            reported.add(sig)
            ctx.fail(sig, what, case, exp, obs)
    ctx.streams["sessions (one simulator, histories of set_circuit / probs / evolve)"] = len(sessions)

    # ---------------------------------------------------------------- processor level: configuration histories
    n_proc = ctx.n(60, 300)
    hists = corpus_processor(labels)
    for i in range(n_proc):
        hists.append(rand_processor_history(rng.fork(("proc", i)), labels, nmax))
    for hist in hists:
        fails, info = run_processor(ctx, hist, labels)
        ctx.case(["processor", info["canon"]], info["nontrivial"], one_sample("processor", info["nontrivial"], {"stream": "processor", "history": describe_processor(hist)}))
        ctx.count("processor.probs", info["nprobs"])
        for k, v in info["kinds"].items():
            ctx.count("processor." + k, v)
        for sig, what, exp, obs, idx in fails:
            case = {"stream": "processor", "history": describe_processor(hist), "failing_step": idx}
            if sig not in reported:
                try:
                    h2, f2 = shrink_processor(ctx, hist, labels, sig)
                    if f2 is not None:
                        what, exp, obs = f2[1], f2[2], f2[3]
                        case = {"stream": "processor", "history": describe_processor(h2), "failing_step": f2[4], "shrunk": True}
                except Exception as e:
                    case["shrink_error"] = f"{type(e).__name__}: {e}"
            reported.add(sig)
            ctx.fail(sig, what, case, exp, obs)
    ctx.streams["processor histories (mutators before / after with_polarized_input, then probs)"] = len(hists)

    # specification route (one column U.jones per photon, input norm = prod (class size)!) = implementation route
    souts = ctx.model.run([(F_SPEC, [t.model(), model_input(rows)]) for (t, rows), _ in spec_sample])
    for ((t, rows), out), so in zip(spec_sample, souts):
        ctx.count("spec-route")
        a = {tuple(e[0]): (un_q(e[1][0]), un_q(e[1][1])) for e in out[1]}
        b = {tuple(e[0]): (un_q(e[1][0]), un_q(e[1][1])) for e in so[1]}
        if a != b:
            ctx.fail("model-spec-vs-impl-route", "model: specification route and implementation route give different exact distributions (amplitudes proved equal; normalisation prod(class size)! = prod s'!)",
                     {"circuit": t.source(), "input": sx(model_input(rows))}, str(b)[:300], str(a)[:300])
    ctx.streams["specification route = implementation route (exact)"] = len(spec_sample)

    # extraction vs vm_compute on small requests
    small = [(1304, []), (F_CONVERT, model_input([[labels["D"], labels["A"]], []]))]
    for (tree, spec, kind, state, rows), out in zip(prepared, outs):
        if state.m <= 2 and spec.n() <= 2 and out[0] == 0 and len(tree.leaves()) <= 3 and all(l.kind != "PU" and l.kind != "U" for l in tree.leaves()):
            small.append((F_PROBS, [tree.model(), model_input(rows)]))
            if len(small) >= 4:
                break
    a = ctx.model.run(small, jobs=1)
    b = ctx.model.vm_crosscheck(small, "c13")
    ctx.count("vm_compute_crosscheck", len(small))
    if a != b:
        ctx.fail("extraction-vs-vm_compute", "extracted runner and vm_compute disagree", {"n": len(small)})


# ------------------------------------------------------------------ sessions
def all_h_input(rng, m, labels, nmax):
    """photons labelled H or without annotation: the preparation matrix is the identity"""
    modes = [[] for _ in range(m)]
    budget = rng.rint(1, nmax)
    for k in rng.shuffle(range(m)):
        if budget <= 0:
            break
        if rng.chance(1, 3):
            continue
        c = rng.rint(1, min(2, budget))
        r3 = rng.below(4)
        modes[k] = [None] * c if r3 == 0 else ([labels["H"]] * c if r3 < 3 or c < 2 else [labels["H"], None])
        budget -= c
    if all(not md for md in modes):
        modes[rng.below(m)] = [labels["H"]]
    return InputSpec(modes)


def rand_session(rng, labels, nmax):
    m = rng.rint(1, 3)
    ops = [("set", rand_tree(rng, m, need_polar=True))]
    carrier = rng.choice(["PolarizationSimulator", "SimulatorFactory"])
    prev = []
    for j in range(rng.rint(4, 8)):
        x = rng.below(20)
        if x == 0 and j > 1:
            ops.append(("set", rand_tree(rng, m, need_polar=True)))
            continue
        if x < 4 and prev:
            spec = rng.choice(prev)
        elif x < 10:
            spec = all_h_input(rng, m, labels, nmax)
        else:
            spec = rand_input(rng, m, labels, nmax, rng.choice(["single"] * 4 + ["pair"] * 3 + ["mixed"] * 3 + ["bad", "vacuum"]))
        prev.append(spec)
        ops.append(("q", spec, "evolve" if rng.chance(1, 5) else "probs"))
    return [("carrier", carrier)] + ops


def describe_session(ops):
    out = []
    for o in ops:
        if o[0] == "carrier":
            out.append("one " + o[1])
        elif o[0] == "set":
            out.append("set_circuit(" + o[1].source()[:300] + ")")
        else:
            out.append(f"{o[2]}({o[1].string()})")
    return out


def run_session(ctx, ops, labels):
    """-> (failures [(sig, what, exp, obs, step)], number of queries, info)"""
    import perceval as pcvl
    from perceval.backends import SLOSBackend
    from perceval.simulators import PolarizationSimulator, Simulator, SimulatorFactory
    carrier = ops[0][1]
    steps = ops[1:]
    req, states = [], []
    for o in steps:
        if o[0] == "set":
            req.append([0, o[1].model()])
            states.append(None)
        else:
            st = pcvl.BasicState(o[1].string())
            rows = read_back(st, o[1], labels)
            req.append([1, model_input(rows)])
            states.append((st, rows))
    outs = ctx.model.run([(1305, req)], jobs=1)[0]
    fails = []
    kinds = {}
    sim = PolarizationSimulator(Simulator(SLOSBackend())) if carrier == "PolarizationSimulator" else None
    cur = None
    nontrivial = False
    seen_h, seen_other_after_h = False, False
    for idx, (o, out, sr) in enumerate(zip(steps, outs, states)):
        if o[0] == "set":
            cur = build(o[1].source())
            if carrier == "PolarizationSimulator":
                sim.set_circuit(cur)
            else:
                sim = SimulatorFactory.build(cur)
            seen_h = seen_other_after_h = False
            continue
        st, rows = sr
        all_h = all(p.key == "H" for row in rows for p in row)
        kinds["all-H" if all_h else "polarised"] = kinds.get("all-H" if all_h else "polarised", 0) + 1
        if all_h and seen_other_after_h:
            nontrivial = True            # all-H, then another polarisation, then all-H again on the same object
        if all_h:
            seen_h = True
        elif seen_h:
            seen_other_after_h = True
        how = o[2]

        def call(obj):
            try:
                return ("ok", obj.probs(st) if how == "probs" else obj.evolve(st))
            except Exception as e:
                return (type(e).__name__, str(e))

        def judge(res):
            """None if the answer agrees with the model, else (what, exp, obs)"""
            if out[0] == 2:
                return None if res[0] == "ValueError" else ("input the model rejects was not rejected with ValueError", "ValueError", str(res)[:200])
            if res[0] != "ok":
                return (f"{how} raised {res[0]}: {res[1]}", "an answer", res[0])
            if how == "probs":
                pexp = {tuple(e[0]): un_p2(e[1]) for e in out[1]}
                vals = {tuple(k): float(v) for k, v in res[1].items()}
                bad = sorted(t for t in set(vals) | set(pexp) if abs(vals.get(t, 0.0) - pexp.get(t, 0.0)) > 1e-6)
                if bad:
                    t = bad[0]
                    return ("distribution differs from the specification", f"{list(t)}: {pexp.get(t, 0.0)}", f"{list(t)}: {vals.get(t, 0.0)}")
                return None
            aexp = {tuple(e[0]): un_q2(e[1]) / math.sqrt(e[2]) for e in out[2]}
            seen = {}
            for s2, a in res[1]:
                seen[spatial_of(s2)] = seen.get(spatial_of(s2), 0) + complex(a)
            bad = sorted(t for t in set(seen) | set(aexp) if abs(seen.get(t, 0) - aexp.get(t, 0)) > 2e-6)
            if bad:
                t = bad[0]
                return ("evolve amplitude differs from the specification", f"{list(t)}: {aexp.get(t, 0)}", f"{list(t)}: {seen.get(t, 0)}")
            return None

        j = judge(call(sim))
        if j is not None:
            fresh = judge(call(SimulatorFactory.build(cur)))
            if fresh is None:
                fails.append(("session:answer-depends-on-history", f"step {idx} of a history on one {carrier}: {j[0]}, while a fresh simulator on the same circuit and input agrees with it", j[1], j[2], idx))
            else:
                fails.append(("session:" + how, f"step {idx}: {j[0]} (a fresh simulator too)", j[1], j[2], idx))
    nq = sum(1 for o in steps if o[0] == "q")
    return fails, nq, {"canon": sx(req), "nontrivial": nontrivial, "kinds": kinds}


def shrink_session(ctx, ops, labels, sig):
    def has(o):
        for f in run_session(ctx, o, labels)[0]:
            if f[0] == sig:
                return f
        return None
    best = None
    changed = True
    while changed:
        changed = False
        for i in range(len(ops) - 1, 1, -1):        # never the carrier nor the first set_circuit
            o2 = ops[:i] + ops[i + 1:]
            f = has(o2)
            if f:
                ops, best, changed = o2, f, True
                break
        if changed:
            continue
        for i, o in enumerate(ops):               # then fewer photons in the remaining inputs
            if o[0] != "q":
                continue
            for k, md in enumerate(o[1].modes):
                for j in range(len(md)):
                    m2 = [list(x) for x in o[1].modes]
                    del m2[k][j]
                    o2 = ops[:i] + [("q", InputSpec(m2), o[2])] + ops[i + 1:]
                    f = has(o2)
                    if f:
                        ops, best, changed = o2, f, True
                        break
                if changed:
                    break
            if changed:
                break
    return ops, best


def corpus_sessions(labels):
    """H, another polarisation, H again -- and unannotated photons -- on one simulator, both carriers"""
    a, b = Ang(3, 4, 5), Ang(5, 12, 13)
    pbs = Node(2, [0, 4], "PBS()", True, kind="PBS")
    wp = Node(1, [0, 2, q2(a.cos), q2(a.sin), q2(b.cos), q2(b.sin)], f"WP({a.value!r}, {b.value / 2!r})", True, kind="WP")
    qwp = Node(1, [0, 2, RH, RH, q2(b.cos), q2(b.sin)], f"QWP({b.value / 2!r})", True, kind="QWP")
    t = Node(2, None, None, items=[(0, wp), (0, pbs), (1, qwp)], kind="sub")
    H, V, D, L = labels["H"], labels["V"], labels["D"], labels["L"]
    qs = [InputSpec([[H], [H]]), InputSpec([[D], [V]]), InputSpec([[H], [H]]), InputSpec([[None, None], []]),
          InputSpec([[L], []]), InputSpec([[None], [H]]), InputSpec([[], []]), InputSpec([[H, V], []]), InputSpec([[H], [H]])]
    out = []
    for carrier in ("PolarizationSimulator", "SimulatorFactory"):
        out.append([("carrier", carrier), ("set", t)] + [("q", q, "probs") for q in qs])
    return out


# ------------------------------------------------------------------ processor level
def polarised_input(rng, m, labels, nmax):
    """an accepted input with at least one P annotation (precondition of with_polarized_input)"""
    for _ in range(20):
        spec = rand_input(rng, m, labels, nmax, rng.choice(["single"] * 4 + ["pair"] * 2 + ["mixed"] * 2))
        if any(p is not None and p != "tag" for md in spec.modes for p in md):
            return spec
    return InputSpec([[labels["V"]]] + [[] for _ in range(m - 1)])


def rand_mutator(rng, m, n):
    x = rng.below(12)
    if x < 5:
        return ("noise", rng.choice(["perfect", "perfect", "same", "none"]))
    if x < 7:
        return ("filter", rng.rint(0, n + 1))
    if x < 9:
        lf = rand_leaf(rng, m)
        return ("add", rng.rint(0, m - lf.k), lf)
    if x < 11:
        k = rng.below(m)
        return ("postselect", rng.choice([f"[{k}]==1", f"[{k}]>0", f"[{k}]<2", f"[{k}]==0"]))
    return ("clear_postselect",)


def rand_processor_history(rng, labels, nmax):
    m = rng.rint(1, 3)
    tree = rand_tree(rng, m, need_polar=True)
    spec = polarised_input(rng, m, labels, nmax)
    n = spec.n()
    ops = [("ctor", rng.choice(["SLOS", "SLOS", "Naive"]), rng.choice([None, None, "perfect"]), tree)]
    for _ in range(rng.below(3)):
        ops.append(rand_mutator(rng, m, n))
    ops.append(("input", spec))
    for _ in range(rng.rint(1, 4)):
        x = rng.below(10)
        if x == 0:
            spec = polarised_input(rng, m, labels, nmax)
            n = spec.n()
            ops.append(("input", spec))
        elif x == 1:
            ops.append(("probs",))
        else:
            ops.append(rand_mutator(rng, m, n))
    ops.append(("probs",))
    return ops


def describe_processor(hist):
    out = []
    for o in hist:
        if o[0] == "ctor":
            out.append(f"p = Processor({o[1]!r}, {o[3].source()[:300]}" + (", noise=NoiseModel())" if o[2] else ")"))
        elif o[0] == "input":
            out.append(f"p.with_polarized_input(BasicState({o[1].string()!r}))")
        elif o[0] == "noise":
            out.append({"perfect": "p.noise = NoiseModel()", "same": "p.noise = p.noise", "none": "p.noise = None"}[o[1]])
        elif o[0] == "filter":
            out.append(f"p.min_detected_photons_filter({o[1]})")
        elif o[0] == "add":
            out.append(f"p.add({o[1]}, {o[2].source()[:200]})")
        elif o[0] == "postselect":
            out.append(f"p.set_postselection(PostSelect({o[1]!r}))")
        elif o[0] == "clear_postselect":
            out.append("p.clear_postselection()")
        else:
            out.append("p.probs()")
    return out


def run_processor(ctx, hist, labels):
    """Phase 1: drive the real Processor through the history, recording every probs(); phase 2: the model on the
    operations that were applied; phase 3: judge."""
    import perceval as pcvl
    from perceval import NoiseModel, PostSelect
    from perceval.simulators import SimulatorFactory
    ctor = hist[0]
    tree = ctor[3]
    m = tree.k
    fails, kinds = [], {}

    def count(k):
        kinds[k] = kinds.get(k, 0) + 1

    def post(dist, passes, ps):
        """filter on the photon count, post-selection, renormalisation -- applied to a {state: p} dictionary"""
        if not passes:
            return {}
        kept = {t: v for t, v in dist.items() if ps is None or ps(pcvl.BasicState(list(t)))}
        tot = sum(kept.values())
        if tot <= 1e-12:
            # the selection keeps an event of probability zero: the renormalised distribution is undefined (the
            # implementation renormalises whatever rounding residue it holds, e.g. 1e-33 -> 1.0)
            return None if kept else {}
        return {t: v / tot for t, v in kept.items()}

    try:
        p = pcvl.Processor(ctor[1], build(tree.source()), noise=NoiseModel()) if ctor[2] else pcvl.Processor(ctor[1], build(tree.source()))
    except Exception as e:
        return [("processor:constructor-" + type(e).__name__, str(e), None, None, 0)], {"canon": "ctor", "nontrivial": False, "nprobs": 0, "kinds": {}}
    items = list(tree.items)
    req, observed = [], []         # observed: (step, index in req, result, snapshot)
    cur, ps, filt, muts_after_input = None, None, None, 0
    for idx, o in enumerate(hist[1:], 1):
        try:
            if o[0] == "input":
                st = pcvl.BasicState(o[1].string())
                cur = (st, read_back(st, o[1], labels))
                p.with_polarized_input(st)
                req.append([0, model_input(cur[1])])
                muts_after_input = 0
            elif o[0] == "noise":
                p.noise = NoiseModel() if o[1] == "perfect" else (p.noise if o[1] == "same" else None)
                req.append([1])
                count("noise-after-input" if cur else "noise-before-input")
                muts_after_input += 1 if cur else 0
            elif o[0] == "filter":
                p.min_detected_photons_filter(o[1])
                filt = o[1]
                req.append([3, o[1]])
                muts_after_input += 1 if cur else 0
            elif o[0] == "add":
                try:
                    p.add(o[1], build(o[2].source()))
                except AssertionError as e:
                    if "cannot compose" in str(e):       # documented: no component on the modes of a post-selection
                        count("add-refused-by-postselection")
                        continue
                    raise
                items.append((o[1], o[2]))
                req.append([2, o[1], o[2].model()])
                count("add-after-input" if cur else "add-before-input")
                muts_after_input += 1 if cur else 0
            elif o[0] == "postselect":
                ps = PostSelect(o[1])
                p.set_postselection(ps)
                count("postselect")
                muts_after_input += 1 if cur else 0
            elif o[0] == "clear_postselect":
                ps = None
                p.clear_postselection()
        except Exception as e:
            fails.append(("processor:mutator-exception-" + o[0] + "-" + type(e).__name__, f"step {idx} ({o[0]}) raised {type(e).__name__}: {e}", None, None, idx))
            break
        if o[0] != "probs":
            continue
        if cur is None:
            continue
        if filt is None:
            filt = cur[0].n          # probs() latches an unset filter to the photon number of the current input
        try:
            r = p.probs()
            res = ("ok", {tuple(k): float(v) for k, v in r["results"].items()})
        except Exception as e:
            res = (type(e).__name__, str(e))
        observed.append((idx, len(req), res, (cur, ps, filt, list(items), muts_after_input)))
        req.append([4])
    full = [m, [[off, nd.model()] for off, nd in tree.items], req]
    outs = ctx.model.run([(1306, full)], jobs=1)[0] if observed else []
    nontrivial = False
    for idx, ri, res, (cur, ps, filt, its, nmut) in observed:
        out = outs[ri]
        if out[0] == 2:
            if res[0] != "ValueError":
                fails.append(("processor:bad-input-accepted", f"step {idx}: an input the model rejects was not rejected with ValueError", "ValueError", str(res[:2])[:200], idx))
            continue
        st, rows = cur
        if nmut and any(pp.key != "H" for row in rows for pp in row):
            nontrivial = True
        pexp = post({tuple(e[0]): un_p2(e[1]) for e in out[2]}, bool(out[1]), ps)
        if pexp is None:
            count("selection-of-a-zero-probability-event-skipped")
            continue
        if res[0] != "ok":
            fails.append(("processor:probs-exception-" + res[0], f"step {idx}: probs() raised {res[0]}: {res[1]}", str({k: round(v, 6) for k, v in pexp.items() if v > 1e-9})[:300], res[0], idx))
            continue
        bad = sorted(t for t in set(res[1]) | set(pexp) if abs(res[1].get(t, 0.0) - pexp.get(t, 0.0)) > 1e-6)
        if not bad:
            continue
        t = bad[0]
        # the simulator-level answer for the same circuit and input, post-processed the same way, decides the signature
        try:
            circ = build(Node(m, None, None, items=its, kind="sub").source())
            sim_d = post({tuple(k): float(v) for k, v in SimulatorFactory.build(circ).probs(st).items()}, filt <= st.n, ps) or {}
            sim_ok = all(abs(sim_d.get(u, 0.0) - pexp.get(u, 0.0)) <= 1e-6 for u in set(sim_d) | set(pexp))
        except Exception:
            sim_ok = False
        sig = "processor:differs-from-simulator-level" if sim_ok else "processor:probs"
        fails.append((sig, f"step {idx}: Processor.probs() differs from the specification of the polarised input" + (" while SimulatorFactory.build(circuit).probs(input) agrees with it" if sim_ok else ""),
                      f"{list(t)}: {pexp.get(t, 0.0)}", f"{list(t)}: {res[1].get(t, 0.0)}", idx))
    canon = sx(full) + str([o[1] for o in hist if o[0] == "postselect"])
    return fails, {"canon": canon, "nontrivial": nontrivial, "nprobs": len(observed), "kinds": kinds}


def shrink_processor(ctx, hist, labels, sig):
    def has(h):
        for f in run_processor(ctx, h, labels)[0]:
            if f[0] == sig:
                return f
        return None
    best = None
    changed = True
    while changed:
        changed = False
        for i in range(len(hist) - 2, 0, -1):           # never the constructor nor the final probs
            if hist[i][0] == "input" and sum(1 for o in hist if o[0] == "input") == 1:
                continue
            h2 = hist[:i] + hist[i + 1:]
            f = has(h2)
            if f:
                hist, best, changed = h2, f, True
                break
        if changed:
            continue
        tree = hist[0][3]
        for i in range(len(tree.items)):
            if len(tree.items) == 1:
                break
            t2 = Node(tree.k, None, None, items=tree.items[:i] + tree.items[i + 1:], kind="sub")
            if not any(l.pol for l in t2.leaves()):
                continue                     # the property is about circuits that contain a polarisation component
            h2 = [(hist[0][0], hist[0][1], hist[0][2], t2)] + hist[1:]
            f = has(h2)
            if f:
                hist, best, changed = h2, f, True
                break
    return hist, best


def corpus_processor(labels):
    a, b = Ang(3, 4, 5), Ang(5, 12, 13)
    pbs = Node(2, [0, 4], "PBS()", True, kind="PBS")
    wp = Node(1, [0, 2, q2(a.cos), q2(a.sin), q2(b.cos), q2(b.sin)], f"WP({a.value!r}, {b.value / 2!r})", True, kind="WP")
    qwp = Node(1, [0, 2, RH, RH, q2(b.cos), q2(b.sin)], f"QWP({b.value / 2!r})", True, kind="QWP")
    pr = Node(1, [0, 3, q2(a.cos), q2(a.sin)], f"PR({a.value!r})", True, kind="PR")
    t = Node(2, None, None, items=[(0, wp), (0, pbs), (1, qwp)], kind="sub")
    V, D, L = labels["V"], labels["D"], labels["L"]
    i1, i2 = InputSpec([[V], [D]]), InputSpec([[L, L], []])
    out = []
    for be in ("SLOS", "Naive"):
        out.append([("ctor", be, None, t), ("input", i1), ("noise", "perfect"), ("probs",)])
        out.append([("ctor", be, "perfect", t), ("input", i1), ("probs",), ("noise", "none"), ("probs",), ("noise", "same"), ("probs",)])
        out.append([("ctor", be, None, t), ("noise", "perfect"), ("input", i2), ("filter", 2), ("add", 0, pr), ("probs",), ("filter", 3), ("probs",)])
        out.append([("ctor", be, None, t), ("input", i2), ("postselect", "[0]>0"), ("noise", "perfect"), ("probs",), ("clear_postselect",), ("probs",)])
    return out


# ------------------------------------------------------------------ shrinking
def shrink_tree(tree: Node, spec, probe, sig):
    """Greedy: delete top-level items / photons while the same signature persists."""
    def has(t, s):
        for f in probe(t, s):
            if f[0] == sig:
                return f
        return None
    best = None
    changed = True
    while changed:
        changed = False
        for i in range(len(tree.items)):
            t2 = Node(tree.k, None, None, items=tree.items[:i] + tree.items[i + 1:], kind="sub")
            if spec is not None and not any(l.pol for l in t2.leaves()):
                continue                     # simulations: keep a polarisation component in the circuit
            f = has(t2, spec)
            if f:
                tree, best, changed = t2, f, True
                break
            off, nd = tree.items[i]
            if nd.items is not None and nd.items:        # hoist the children of a nested sub-circuit
                t3 = Node(tree.k, None, None, kind="sub",
                          items=tree.items[:i] + [(off + o, x) for o, x in nd.items] + tree.items[i + 1:])
                f = has(t3, spec)
                if f:
                    tree, best, changed = t3, f, True
                    break
        if changed or spec is None:
            continue
        for k, md in enumerate(spec.modes):
            for j in range(len(md)):
                m2 = [list(x) for x in spec.modes]
                del m2[k][j]
                s2 = InputSpec(m2)
                f = has(tree, s2)
                if f:
                    spec, best, changed = s2, f, True
                    break
            if changed:
                break
    return tree, spec, best


# ------------------------------------------------------------------ corpus
def corpus_trees():
    pbs = Node(2, [0, 4], "PBS()", True, kind="PBS")
    e1 = Node(1, None, None, items=[], kind="sub")
    e2 = Node(2, None, None, items=[], kind="sub")
    a = Ang(3, 4, 5)
    b = Ang(5, 12, 13)
    wp = Node(1, [0, 2, q2(a.cos), q2(a.sin), q2(b.cos), q2(b.sin)], f"WP({a.value!r}, {b.value / 2!r})", True, kind="WP")
    return [Node(2, None, None, items=[(0, pbs), (0, e1)], kind="sub"),          # the Coq witness
            Node(2, None, None, items=[(0, pbs), (0, e2)], kind="sub"),
            Node(2, None, None, items=[(0, pbs), (1, wp)], kind="sub")]


def corpus_sims(labels):
    pbs = Node(2, [0, 4], "PBS()", True, kind="PBS")
    a = Ang(3, 4, 5)
    b = Ang(5, 12, 13)
    wp = Node(1, [0, 2, q2(a.cos), q2(a.sin), q2(b.cos), q2(b.sin)], f"WP({a.value!r}, {b.value / 2!r})", True, kind="WP")
    qwp = Node(1, [0, 2, RH, RH, q2(b.cos), q2(b.sin)], f"QWP({b.value / 2!r})", True, kind="QWP")
    t1 = Node(2, None, None, items=[(0, pbs)], kind="sub")
    t2 = Node(2, None, None, items=[(0, wp), (0, pbs), (1, qwp)], kind="sub")
    ell = make_elliptical(Ang(8, 15, 17), Fraction(3, 5), Fraction(4, 5))
    H, V, D, L = labels["H"], labels["V"], labels["D"], labels["L"]
    A, Rr = labels["A"], labels["R"]
    al = Ang(8, 15, 17)
    e1 = make_elliptical(al, Fraction(3, 5), Fraction(4, 5))
    e2 = complement((al, Fraction(3, 5), Fraction(4, 5)))
    return [(t1, InputSpec([[V, None], []]), "mixed"),         # |{P:V}1,0>: one V photon and one plain (= H) photon in a mode
            (t1, InputSpec([[H, None], []]), "mixed"),
            (t2, InputSpec([[V, V, None], []]), "mixed"),
            (t2, InputSpec([[V, "tag"], [None]]), "mixed"),
            (t2, InputSpec([[D, None], []]), "mixed"),         # rejected: D is not orthogonal to the plain photon's H
            (t1, InputSpec([[H, V], []]), "pair"),            # minimal witness of the (repaired) two-polarisation defect
            (t2, InputSpec([[D, A, D], []]), "pair"),
            (t2, InputSpec([[H], [L, Rr]]), "pair"),
            (t2, InputSpec([[e1, e2], [ell]]), "pair"),       # elliptical vector + exact complement, asymmetric elements
            (t2, InputSpec([[e2, e1, e2], []]), "pair"),
            (t1, InputSpec([[], []]), "vacuum"),
            (t1, InputSpec([[H], [V]]), "single"),
            (t2, InputSpec([[ell], [L]]), "single"),
            (t2, InputSpec([[ell, ell], [D]]), "single")]


def replay(ctx, case):
    import perceval as pcvl
    print(json.dumps(case, indent=1)[:4000])
    c = case.get("case", case)
    labels, _ = get_labels(ctx)
    if c.get("stream") == "matrix" and c.get("model_tree"):
        tree = parse_sx(c["model_tree"])
        out = ctx.model.run([(F_UNITARY, tree)])[0]
        nd = Node(0, None, c["circuit"])
        nd.source = lambda top=True: c["circuit"]
        nd.has_empty = lambda: "Circuit(" in c["circuit"]
        nd.k = build(c["circuit"]).m
        print("replayed:", check_matrix(nd, out))
    elif c.get("state"):
        st = pcvl.BasicState(c["state"])
        print("implementation:", end=" ")
        try:
            from perceval.simulators import SimulatorFactory
            print(SimulatorFactory.build(build(c["circuit"])).probs(st))
        except Exception as e:
            print(type(e).__name__, e)
