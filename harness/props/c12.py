"""C12 — a unitary decomposition, when returned, reproduces the requested matrix."""
from __future__ import annotations
import math
import random as pyrandom
import time
from fractions import Fraction

from ..common import QI, frac_of_float

LEVEL = "proof"
RULE = ("cases: Circuit.decomposition(U, block, ...) on U in {Haar-random (Matrix.random_unitary, seeded), permutation, "
        "permutation*diagonal, block-diagonal, diagonal (= triangular unitary), sparse products of few 2-mode unitaries} "
        "with exact zeros, sizes 2-6; blocks: MZI BS//PS(a)//BS//PS(b) (upper or lower arm, Rx or Ry), BS(theta, phi_tr) in the "
        "Rx/H/Ry conventions (universal list), and non-universal blocks (PS(a)//BS//PS(b)//BS, BS(theta), BS(theta, phi_tl)); "
        "flags phase_shifter_fn=PS|None, permutation=PERM|None, inverse_h, inverse_v, ignore_identity_block, constraints, "
        "merge. Every returned circuit is read back (compute_unitary, floats as exact rationals on a 2^-40 grid) and judged "
        "by the extracted proved checker (close_to / diag_equiv, eps = precision); the elimination is replayed by the "
        "extracted model with the solver's answers as transcript and compared item by item with the recorded "
        "decompose_triangle list, the final component list and the final matrix. Non-trivial: size >= 3, a circuit was "
        "returned and it holds at least one block; distinct by (matrix entries, block, flags). Two further streams: "
        "WEAKLY COUPLED modes (blockdiag(Haar(k), I) @ Givens(a, b, eps), diagonal phases times that, one or several small "
        "rotations, eps log-uniform in [1e-8, 1e-1]: entries far below / just below / just above / far above the precision) "
        "and TIGHT PRECISION (4e-9, 6e-9 with max_try=30) where tries are abandoned partway and a later one succeeds. The "
        "verdict is always against the ORIGINAL request; the caller's matrix object must be unchanged beyond entries <= "
        "precision. The REPRESENTATION of the request is a dimension of every stream: perceval Matrix, numpy complex128, "
        "Fortran-ordered, transposed view, read-only, float64 (real orthogonal kinds: real Haar by QR, plane rotations, "
        "Hadamard / Householder), int64 / int8 (permutations, signed permutations), complex64 and nested lists (may be "
        "refused before the elimination starts), through Circuit.decomposition and through decompose_triangle called "
        "directly; the verdict is against the mathematical matrix. Abandoned tries are crossed with every flag "
        "(inverse_h, inverse_v, both, phase layer, permutation, ignore_identity_block, constraints, merge); the tight "
        "stream continues until 3 circuits were found at an even attempt under an inversion flag (at most 16 cases).")
TRUSTED = ["model: coq/Model/Decomp.v (hand-written; tied to /repo by the replay stream of this check)",
           "the numerical solver (scipy L-BFGS-B from random starts, sympy inverse/lambdify) is an ORACLE: its answers are "
           "validated per instance by the proved checker, never assumed correct"]
ASSUMPTIONS = ["tolerance: eps = the stated precision, entrywise. A result between precision and (m-1)*precision is reported "
               "under the signature precision-exceeded:accumulated-sub-precision-residuals (each nulled or dropped entry is "
               "tested against `precision` one by one; up to m-1 of them add up in a column), anything beyond as wrong-matrix",
               "completeness ('a universal block is found within max_try') is required at the default precision only; with "
               "precision < 1e-8 (below the solver's accuracy) None is counted, not reported",
               "the numerical solver is an oracle: convergence is not proved; 'found within max_try' for universal blocks is a "
               "counted success rate on the stream (must be 100 %)",
               "theorems assume an exact oracle (returned block nulls its entry exactly, |x| <= precision means x = 0); "
               "in floating point this holds to ~1e-9, which the checker measures per instance (eps = precision = 1e-6)",
               "U.inv() of a matrix that passed is_unitary() is modelled by the adjoint",
               "component.inverse on the block is assumed to be the adjoint (h) / flipped matrix (v) (the C11 facts); the "
               "replay stream detects blocks for which /repo violates this",
               "a phase shifter PS(arg d) is modelled by the matrix entry d (|d| = 1 is a theorem for the exact oracle)"]
EXPLANATION = ("level_note: translation validation with a proved checker + kernel-checked proof of all the bookkeeping "
               "(invariant list*residual = request, zeros kept, triangular unitary = diagonal, inversion flags cancel, list "
               "contents); the numerical solver is an oracle.")

PREC = Fraction(1, 10 ** 6)
GRID = 1 << 40


def grid(x: float) -> Fraction:
    return Fraction(round(x * GRID), GRID)


def qgrid(z) -> QI:
    z = complex(z)
    return QI(grid(z.real), grid(z.imag))


def qexact(z) -> QI:
    z = complex(z)
    return QI(frac_of_float(z.real), frac_of_float(z.imag))


def qmat(M, conv):
    return [[conv(M[i][j]) for j in range(len(M))] for i in range(len(M))]


def cval(x):
    return complex(float(Fraction(x[0][0], x[0][1])), float(Fraction(x[1][0], x[1][1])))


# ------------------------------------------------------------------ generators
def make_blocks(pcvl):
    from perceval.components import BS, PS, Circuit
    P = pcvl.P
    return {
        # universal for this elimination (two real degrees of freedom in the first row of the inverse)
        "mzi": (True, lambda: BS() // PS(P("a")) // BS() // PS(P("b"))),
        "mzi_low": (True, lambda: BS() // (1, PS(P("a"))) // BS() // (1, PS(P("b")))),
        "mzi_ry": (True, lambda: BS.Ry() // PS(P("a")) // BS.Ry() // PS(P("b"))),
        "bs_tr": (True, lambda: BS(theta=P("t"), phi_tr=P("p"))),
        "bsH_tr": (True, lambda: BS.H(theta=P("t"), phi_tr=P("p"))),
        "bsRy_tr": (True, lambda: BS.Ry(theta=P("t"), phi_tr=P("p"))),
        # not universal: may only return None or a correct circuit
        "ps_bs_ps_bs": (False, lambda: Circuit(2) // PS(P("a")) // BS() // PS(P("b")) // BS()),
        "bs_theta": (False, lambda: BS(theta=P("t"))),
        "bs_tl": (False, lambda: BS(theta=P("t"), phi_tl=P("p"))),
    }


BS_PHASE_BLOCKS = {"bs_tr", "bsH_tr", "bsRy_tr", "bs_tl"}
KINDS = ["haar", "perm", "permdiag", "block", "diag", "sparse", "real", "sperm"]


def gen_matrix(np, pcvl, rng, kind, m):
    def haar(k):
        return np.array(pcvl.Matrix.random_unitary(k))

    def ph():
        a = rng.below(1 << 30) / float(1 << 30) * 2 * math.pi
        return complex(math.cos(a), math.sin(a))

    def permm():
        p = rng.shuffle(list(range(m)))
        M = np.zeros((m, m), dtype=complex)
        for k in range(m):
            M[p[k], k] = 1
        return M

    if kind == "haar":
        return haar(m)
    if kind == "perm":
        return permm()
    if kind == "permdiag":
        return permm() @ np.diag([rng.choice([1, -1, 1j, ph()]) for _ in range(m)])
    if kind == "diag":
        return np.diag([rng.choice([1, -1, -1j, ph(), ph()]) for _ in range(m)]).astype(complex)
    if kind == "block":
        M = np.zeros((m, m), dtype=complex)
        i = 0
        while i < m:
            k = rng.rint(1, min(m - i, max(1, m - 1)))
            M[i:i + k, i:i + k] = haar(k) if k > 1 else ph()
            i += k
        return M
    if kind == "sparse":
        M = np.eye(m, dtype=complex)
        for _ in range(rng.rint(1, m)):
            i = rng.below(m - 1)
            E = np.eye(m, dtype=complex)
            E[i:i + 2, i:i + 2] = haar(2)
            M = E @ M
        return M
    if kind == "weak":
        return gen_weak(np, pcvl, rng, m)[1]
    if kind == "real":
        # real orthogonal: real Haar (QR), product of plane rotations, Hadamard / Householder reflection
        sub = rng.below(3)
        if sub == 0:
            q, r = np.linalg.qr(np.random.randn(m, m))
            return (q * np.sign(np.diag(r))).astype(complex)
        if sub == 1:
            M = np.eye(m)
            for _ in range(rng.rint(1, m + 1)):
                a = rng.below(m - 1)
                b = rng.rint(a + 1, m - 1)
                M = M @ givens(np, m, a, b, rng.below(1 << 30) / float(1 << 30) * 2 * math.pi).real
            return M.astype(complex)
        if m in (2, 4):
            h2 = np.array([[1., 1.], [1., -1.]])
            return ((h2 / math.sqrt(2)) if m == 2 else np.kron(h2, h2) / 2).astype(complex)
        v = np.random.randn(m)
        return (np.eye(m) - 2 * np.outer(v, v) / (v @ v)).astype(complex)
    if kind == "sperm":
        return (permm() * np.array([rng.choice([1, -1]) for _ in range(m)])).astype(complex)
    raise ValueError(kind)


# representations of the requested matrix (the mathematical matrix is always the complex128 array U)
def reps_for(np, U, inv_h):
    if inv_h:                       # U.inv() is a method of perceval's Matrix only
        return ["Matrix"]
    reps = ["Matrix", "complex128", "fortran", "tview", "readonly"]
    if not np.any(U.imag):
        reps += ["float64", "float64", "readonly-float64"]
        if np.array_equal(U.real, np.rint(U.real)):
            reps += ["int64", "int64", "int8"]
    return reps


def to_rep(np, pcvl, U, rep):
    if rep == "Matrix":
        return pcvl.Matrix(U.copy())
    if rep == "complex128":
        return U.copy()
    if rep == "fortran":
        return np.asfortranarray(U.copy())
    if rep == "tview":
        return np.ascontiguousarray(U.T).T          # non-contiguous transposed view holding the same values
    if rep == "readonly":
        A = U.copy()
        A.setflags(write=False)
        return A
    if rep == "float64":
        return U.real.astype(np.float64)
    if rep == "readonly-float64":
        A = U.real.astype(np.float64)
        A.setflags(write=False)
        return A
    if rep == "int64":
        return np.rint(U.real).astype(np.int64)
    if rep == "int8":
        return np.rint(U.real).astype(np.int8)
    if rep == "complex64":
        return U.astype(np.complex64)
    if rep == "list":
        return U.tolist()
    raise ValueError(rep)


def givens(np, m, a, b, eps):
    g = np.eye(m, dtype=complex)
    g[a, a] = g[b, b] = math.cos(eps)
    g[a, b] = -math.sin(eps)
    g[b, a] = math.sin(eps)
    return g


def gen_weak(np, pcvl, rng, m):
    """Exact unitaries with a WEAKLY coupled mode: blockdiag(Haar(k), I) @ Givens(a, b, eps), diagonal phases times
    that, a single small rotation, products of several small rotations; eps log-uniform over [1e-8, 1e-1], so that
    entries sit far below / just below / just above / far above `precision`. Returns (description, U)."""
    def eps():
        return 10.0 ** (-8 + 7 * rng.below(1 << 30) / float(1 << 30))

    def haar_pad(k):
        M = np.eye(m, dtype=complex)
        if k > 1:
            M[:k, :k] = np.array(pcvl.Matrix.random_unitary(k))
        return M

    def ang():
        return rng.below(1 << 30) / float(1 << 30) * 2 * math.pi

    sub = rng.choice(["haar+givens", "haar+givens", "phases.haar+givens", "rotation", "rotations"])
    if sub in ("haar+givens", "phases.haar+givens"):
        k = rng.rint(1, m - 1)
        e = eps()
        a, b = rng.below(k), rng.rint(k, m - 1)
        U = haar_pad(k) @ givens(np, m, a, b, e)
        if sub.startswith("phases"):
            U = np.diag([complex(math.cos(t), math.sin(t)) for t in [ang() for _ in range(m)]]) @ U
        return {"sub": sub, "eps": [e], "k": k, "pair": [a, b]}, U
    if sub == "rotation":
        e = eps()
        a = rng.below(m - 1)
        return {"sub": sub, "eps": [e], "pair": [a, a + 1]}, givens(np, m, a, a + 1, e)
    es = [eps() for _ in range(rng.rint(2, 4))]
    U = np.eye(m, dtype=complex)
    for e in es:
        a = rng.below(m - 1)
        b = rng.rint(a + 1, m - 1)
        U = U @ givens(np, m, a, b, e)
    return {"sub": sub, "eps": es}, U


# ------------------------------------------------------------------ one case
class Recorder:
    """Pass-through wrapper of decompose_triangle: records every returned list (matrices read at capture time,
    before Circuit.inverse mutates the components in place)."""

    def __init__(self, dmod, np, PERM):
        self.dmod, self.np, self.PERM = dmod, np, PERM
        self.orig = dmod.decompose_triangle
        self.calls = []
        self.entered = False

    def __enter__(self):
        def wrapper(*a, **k):
            self.entered = True
            lc = self.orig(*a, **k)
            if lc is None:
                self.calls.append(None)
            else:
                rec = []
                for r, c in lc:
                    if isinstance(c, self.PERM):
                        rec.append(("perm", list(r)[0], [int(x) for x in c.perm_vector]))
                    elif isinstance(r, int):
                        rec.append(("phase", r, complex(self.np.array(c.compute_unitary())[0, 0])))
                    else:
                        rec.append(("block", list(r)[0], self.np.array(c.compute_unitary()).astype(complex)))
                self.calls.append(rec)
            return lc
        self.dmod.decompose_triangle = wrapper
        return self

    def __exit__(self, *exc):
        self.dmod.decompose_triangle = self.orig


def inverse_hypothesis(env, cfg):
    """The premise of the inversion theorem, tested on the real block: component.inverse(h) is the adjoint and
    component.inverse(v) the flipped matrix. Returns the list of violated parts."""
    import copy
    np = env["np"]
    blk = env["blocks"][cfg["block"]][1]()
    for p in blk.get_parameters():
        p.set_value(p.random())
    B = np.array(blk.compute_unitary())
    bad = []
    for h, v, name, expected in ((True, False, "adjoint", B.conj().T), (False, True, "flip", np.flip(B))):
        if (h and cfg["inv_h"]) or (v and cfg["inv_v"]):
            c = copy.deepcopy(blk)
            c.inverse(h=h, v=v)
            M = np.array(c.compute_unitary())
            if abs(M - expected).max() > 1e-9:
                bad.append((name, float(abs(M - expected).max())))
    if cfg["inv_h"] and cfg["inv_v"] and not bad:
        # both at once (one call component.inverse(v=True, h=True)), only when each one alone is right
        c = copy.deepcopy(blk)
        c.inverse(h=True, v=True)
        M = np.array(c.compute_unitary())
        expected = np.flip(B.conj().T)
        if abs(M - expected).max() > 1e-9:
            bad.append(("adjoint-flip", float(abs(M - expected).max())))
    return bad


def block_types(comp):
    if comp.is_composite():
        return [type(c).__name__ for _, c in comp]
    return [type(comp).__name__]


def run_case(env, cfg, U):
    """Runs the real decomposition and all judgements. Returns (status, failures) where failures is a list of
    (signature, what, expected, observed)."""
    np, pcvl, ctx = env["np"], env["pcvl"], env["ctx"]
    from perceval.components import PS, PERM, Circuit
    import perceval.utils.algorithms.decomposition as dmod
    m = U.shape[0]
    universal, mk = env["blocks"][cfg["block"]]
    block = mk()
    btypes = sorted(block_types(block))
    kw = dict(phase_shifter_fn=PS if cfg["phase"] else None, permutation=PERM if cfg["perm"] else None,
              inverse_h=cfg["inv_h"], inverse_v=cfg["inv_v"], ignore_identity_block=cfg["iib"], merge=cfg["merge"],
              max_try=cfg["max_try"])
    prec = float(cfg.get("precision", 1e-6))
    if "precision" in cfg:
        kw["precision"] = prec
    precq = frac_of_float(prec)
    if cfg["constraints"]:
        kw["constraints"] = [(None, 0.0), (None, math.pi / 2), (None, None)]
    rep = cfg.get("rep", "Matrix")
    Uin = to_rep(np, pcvl, U, rep)
    fails = []
    rec = None
    try:
        with Recorder(dmod, np, PERM) as rec:
            if cfg.get("direct"):
                # the public elimination function itself, circuit assembled as Circuit.decomposition does
                lc0 = dmod.decompose_triangle(Uin, block, kw["phase_shifter_fn"], kw["permutation"], prec,
                                              kw.get("constraints"), False, cfg["iib"])
                C = None
                if lc0 is not None:
                    C = Circuit(m)
                    for r0, c0 in lc0:
                        C.add(r0, c0, merge=cfg["merge"])
            else:
                C = Circuit.decomposition(Uin, block, **kw)
    except Exception as e:  # noqa
        ro = isinstance(e, ValueError) and "read-only" in str(e)
        if rep != "Matrix" and not rec.entered and not ro:
            # a container other than perceval's Matrix refused before the elimination started (no .inv / .shape, single
            # precision failing is_unitary): a rejection, not a wrong answer
            ctx.count(f"rejected.{rep}.{type(e).__name__}")
            return "rejected", []
        sig = f"exception-{type(e).__name__}" + (":read-only-array-with-negligible-entry" if ro else "")
        return "exception", [(sig, f"Circuit.decomposition raised {type(e).__name__}: {e}" +
                              (" (the elimination writes `u[n, j] = 0` into the caller's own array when the first cell it "
                               "visits is already negligible)" if ro else ""),
                              "a circuit or None", repr(e)[:300])]
    env["last_info"] = {"tries": len(rec.calls), "abandoned": sum(1 for x in rec.calls if x is None)}
    # the caller's matrix object: entries <= precision may be overwritten with 0 by the elimination (unchanged code,
    # `u[n, j] = 0` on the argument itself); anything larger means the request was reduced in place
    drift = float(abs(np.array(Uin, dtype=complex) - U).max())
    if drift > prec:
        fails.append(("caller-matrix-modified", "the matrix object passed to Circuit.decomposition was modified by the call",
                      f"entries unchanged (up to entries <= precision={prec:g} set to 0)", f"max change {drift:.3e}"))
    elif drift > 0:
        ctx.count("note.caller-matrix-sub-precision-entries-zeroed")
    if C is None:
        if universal and prec >= 1e-6:
            # completeness sentence of the property; on inputs with a weakly coupled mode /repo itself fails it
            sig = "universal-block-not-found" + (":weakly-coupled-mode" if cfg.get("kind") == "weak" else "")
            fails.append((sig, f"no circuit within max_try={cfg['max_try']} for a universal block "
                               f"({env['last_info']['tries']} tries, all abandoned)", "a circuit", "None"))
        return "none", fails
    V = np.array(C.compute_unitary())
    # premise of the inversion theorem on the real block; when /repo violates it, that root cause is reported and its
    # consequences (wrong final matrix) are not reported a second time
    premise_broken = False
    if cfg["inv_h"] or cfg["inv_v"]:
        for name, err in inverse_hypothesis(env, cfg):
            premise_broken = True
            cls = "BS-with-phase" if cfg["block"] in BS_PHASE_BLOCKS else "BS.Ry" if cfg["block"] == "mzi_ry" \
                else cfg["block"]
            which = {"adjoint": "h=True", "flip": "v=True", "adjoint-flip": "v=True, h=True"}[name]
            fails.append((f"block-inverse-not-{name}-{cls}",
                          f"component.inverse({which}) on the building block does not give its {name} matrix, so "
                          f"Circuit.decomposition with the corresponding inverse_* flags returns a circuit with the wrong matrix",
                          f"{name} of the block matrix", f"max deviation {err:.3e}; decomposition max |V-U| = "
                          f"{abs(V - U).max():.3e}"))
    tag = ("-inverse_h" if cfg["inv_h"] else "") + ("-inverse_v" if cfg["inv_v"] else "") + \
          ("-bs-phase-block" if cfg["block"] in BS_PHASE_BLOCKS else "")
    # ---- (a) proved checker on the returned circuit
    # judged against the ORIGINAL request U (not the object handed to the call). eps = the stated precision; a result
    # that misses it but stays within (m-1)*precision is the accumulation of individually accepted residuals (each
    # nulled or dropped entry is only tested against `precision`, up to m-1 of them add up in a column): reported
    # under its own signature; anything beyond is a wrong matrix.
    eps2 = precq * precq
    eps2_acc = eps2 * max(1, m - 1) ** 2
    Vq, Uq = qmat(V, qgrid), qmat(U, qgrid)
    side = 1 if cfg["inv_h"] else 0

    def judge(e2):
        if cfg["phase"]:
            return ctx.model.run([(1200, [e2, m, Vq, Uq])])[0] == 1
        return ctx.model.run([(1201, [e2, m, side, Vq, Uq])])[0] == 1

    if not premise_broken and not judge(eps2):
        if m > 2 and judge(eps2_acc):
            fails.append(("precision-exceeded:accumulated-sub-precision-residuals",
                          "returned circuit misses the stated precision by less than the factor m-1: entries at or below "
                          "the precision that were dropped / accepted one by one add up",
                          f"entrywise error <= {prec:g}", f"max |V-U| = {abs(V - U).max():.3e} (m = {m})"))
        elif cfg["phase"]:
            fails.append(("wrong-matrix" + tag, "returned circuit's matrix differs from the requested one beyond the precision",
                          f"entrywise |V-U| <= {prec:g}", f"max |V-U| = {abs(V - U).max():.3e} after "
                          f"{env['last_info']['abandoned']} abandoned tries"))
        else:
            fails.append(("wrong-matrix-up-to-diagonal" + tag,
                          "returned circuit's matrix is not the requested one up to a diagonal phase matrix "
                          + ("(left)" if side else "(right)"), f"V = D U / U D within {prec:g}", "checker refused"))
    # ---- (b) structure: only block copies, PS (if requested), PERM (if requested)
    comps = list(C._components)
    if cfg["merge"]:
        allowed = set(btypes) | ({"PS"} if cfg["phase"] else set()) | ({"PERM"} if cfg["perm"] else set())
        bad = [type(c).__name__ for _, c in comps if type(c).__name__ not in allowed]
        if bad:
            fails.append(("foreign-component", "component that is neither the block, PS nor PERM", sorted(allowed), bad))
    else:
        for r, c in comps:
            r = list(r)
            if isinstance(c, PERM):
                okc = cfg["perm"] and len(r) >= 2
            elif len(r) == 1:
                okc = cfg["phase"] and type(c).__name__ == "PS"
            else:
                okc = len(r) == 2 and r[1] == r[0] + 1 and sorted(block_types(c)) == btypes
            if not okc or r[0] < 0 or r[-1] >= m:
                fails.append(("foreign-component", "component that is neither a block copy on (n, n+1), PS nor PERM",
                              btypes, f"{type(c).__name__} on {r}"))
                break
    # ---- (c) replay of the elimination by the extracted model with the solver's answers as transcript
    lc = [x for x in rec.calls if x is not None][-1]
    emitted = [x for x in lc if x[0] != "phase"]
    transcript = []
    for x in reversed(emitted):
        if x[0] == "block":
            B = x[2]
            transcript.append([qmat(B, qexact), qmat(B.conj().T, qexact)])
    flags = [cfg["iib"], cfg["perm"], cfg["phase"], cfg["inv_v"], cfg["inv_h"]]
    out = ctx.model.run([(1202, [m, qmat(U, qexact), eps2, flags, transcript])])[0]
    if out is None or out[0] != 1:
        fails.append(("replay-diverged", "the model's elimination asked for a block the implementation did not produce",
                      f"{len(transcript)} solver answers suffice", "model ran out of transcript"))
        return "found", fails

    def norm_items(items):
        res = []
        for it in items:
            if it[0] == 0:
                res.append(("block", it[1], None))
            elif it[0] == 1:
                res.append(("perm", it[1], list(it[2])))
            else:
                res.append(("phase", it[1], cval(it[2])))
        return res

    pre, fin, left = norm_items(out[1]), norm_items(out[2]), out[5]
    if left != 0:
        fails.append(("replay-diverged", "the implementation used more blocks than the model's elimination needs",
                      "transcript consumed", f"{left} unused"))

    def same_lists(model_items, impl_items, what):
        mi = [(k, p, v) for k, p, v in model_items if k != "phase"]
        ii = [(k, p, v if k == "perm" else None) for k, p, v in impl_items if k != "phase"]
        if mi != ii:
            return f"{what}: non-phase items differ", str(mi), str(ii)
        mp = {p: v for k, p, v in model_items if k == "phase"}
        ip = {p: v for k, p, v in impl_items if k == "phase"}
        for p in set(mp) | set(ip):
            if abs(mp.get(p, 1) - ip.get(p, 1)) > 1e-6:
                return f"{what}: phase on mode {p} differs", str(mp.get(p, 1)), str(ip.get(p, 1))
        return None

    d = same_lists(pre, lc, "decompose_triangle list")
    if d:
        fails.append(("replay-list-mismatch" + tag, d[0], d[1], d[2]))
    if not cfg["merge"]:
        impl_fin = []
        for r, c in comps:
            r = list(r)
            if isinstance(c, PERM):
                impl_fin.append(("perm", r[0], [int(x) for x in c.perm_vector]))
            elif len(r) == 1:
                impl_fin.append(("phase", r[0], complex(np.array(c.compute_unitary())[0, 0])))
            else:
                impl_fin.append(("block", r[0], None))
        d = same_lists(fin, impl_fin, "final component list")
        if d:
            fails.append(("replay-final-list-mismatch" + tag, d[0], d[1], d[2]))
    Vm = np.array([[cval(e) for e in row] for row in out[3]])
    if abs(Vm - V).max() > 1e-6 and not premise_broken:
        fails.append(("replay-matrix-mismatch" + tag,
                      "matrix of the returned circuit differs from the model's (same solver answers, ideal block inverses)",
                      f"max diff <= 1e-6", f"max diff = {abs(Vm - V).max():.3e}"))
    return "found", fails


def describe(cfg, U):
    return {"config": cfg, "m": int(U.shape[0]),
            "U": [[[float(x.real), float(x.imag)] for x in row] for row in U.tolist()]}


def run(ctx):
    import numpy as np
    import perceval as pcvl
    rng = ctx.rng
    np.random.seed(rng.next() % (1 << 32))
    pyrandom.seed(rng.next())
    env = {"np": np, "pcvl": pcvl, "ctx": ctx, "blocks": make_blocks(pcvl)}
    uni = [k for k, (u, _) in env["blocks"].items() if u]
    non = [k for k, (u, _) in env["blocks"].items() if not u]

    def base_cfg(**kw):
        # rep None = drawn, once the matrix is known, among the representations that can hold it
        cfg = dict(block="mzi", phase=True, perm=False, inv_h=False, inv_v=False, iib=True, merge=False,
                   constraints=False, max_try=10, rep=None, direct=False)
        cfg.update(kw)
        return cfg

    cases = []
    # fixed part: every universal block with every inversion combination, every matrix kind with permutation / iib
    for b in uni:
        for h, v in ((False, False), (True, False), (False, True), (True, True)):
            if b in ("mzi_low", "mzi_ry", "bsH_tr", "bsRy_tr") and (h, v) in ((False, True), (True, False)) and ctx.quick():
                continue
            cases.append(("haar", 3, base_cfg(block=b, inv_h=h, inv_v=v, phase=not (h and v and b == "mzi"), rep="Matrix")))
    for kind in KINDS:
        cases.append((kind, 4, base_cfg(perm=True, block="mzi")))
        cases.append((kind, 4, base_cfg(perm=True, iib=False, block="bs_tr", phase=False)))
    # representation of the request: real orthogonal matrices as float arrays, (signed) permutations as int arrays,
    # also through the public elimination function itself; single precision and nested lists may be refused
    cases += [("real", 3, base_cfg(rep="float64")), ("real", 4, base_cfg(rep="float64", inv_v=True, block="bs_tr")),
              ("real", 4, base_cfg(rep="readonly-float64", phase=False)), ("sperm", 4, base_cfg(rep="int64")),
              ("perm", 4, base_cfg(rep="int8", block="mzi_low")), ("sperm", 3, base_cfg(rep="int64", perm=True, inv_v=True)),
              ("real", 3, base_cfg(rep="float64", direct=True)), ("sperm", 3, base_cfg(rep="int64", direct=True, block="bs_tr")),
              ("haar", 3, base_cfg(rep="Matrix", direct=True)), ("haar", 3, base_cfg(rep="tview", direct=True, phase=False)),
              ("haar", 3, base_cfg(rep="complex64")), ("haar", 3, base_cfg(rep="list")), ("diag", 3, base_cfg(rep="readonly"))]
    # random part
    n_rand = ctx.n(44, 900)
    for _ in range(n_rand):
        kind = rng.choice(KINDS)
        m = rng.choice([2, 3, 3, 4, 4, 5, 5, 6]) if not ctx.quick() else rng.choice([2, 3, 3, 4, 4, 5, 6])
        b = rng.choice(uni) if rng.chance(3, 4) else rng.choice(non)
        cfg = base_cfg(block=b, phase=rng.chance(2, 3), perm=rng.chance(1, 2), inv_h=rng.chance(1, 4),
                       inv_v=rng.chance(1, 4), iib=rng.chance(3, 4), merge=rng.chance(1, 3),
                       constraints=(b in ("mzi", "mzi_low") and rng.chance(1, 4)),
                       max_try=10 if b in uni else 2)
        if not cfg["inv_h"] and not cfg["inv_v"] and rng.chance(1, 8):
            cfg["direct"] = True
        cases.append((kind, m, cfg))

    n_main = len(cases)
    # weakly coupled modes (default precision): entries far below / just below / just above / far above `precision`;
    # the solver often needs several tries here, so abandoned-then-successful retries are exercised as well — with every
    # flag combination
    n_weak = ctx.n(34, 500)
    for _ in range(n_weak):
        m = rng.choice([2, 3, 4, 4, 5])
        b = rng.choice(["mzi", "mzi", "mzi", "mzi_low", "bs_tr"])
        cases.append(("weak", m, base_cfg(block=b, phase=rng.chance(4, 5), perm=rng.chance(1, 3), iib=rng.chance(7, 8),
                                          inv_h=rng.chance(1, 4), inv_v=rng.chance(1, 4), merge=rng.chance(1, 4))))

    def tight_cfg():
        # tight but legal precision with many retries: the solver misses some cells, tries get abandoned partway and a
        # later try must still start from the (pre-processed) request — crossed with every flag
        b = rng.choice(["mzi", "mzi", "mzi_low"])
        h, v = rng.choice([(True, False), (False, True), (True, True), (False, False), (True, False), (False, True)])
        return ("haar", rng.choice([3, 4, 4]),
                base_cfg(block=b, max_try=30, phase=rng.chance(3, 4), perm=rng.chance(1, 4), inv_h=h, inv_v=v,
                         iib=rng.chance(3, 4), merge=rng.chance(1, 4), constraints=rng.chance(1, 5),
                         precision=rng.choice([4e-9, 4e-9, 6e-9])))

    from ..framework import load_findings
    known = {f["signature"] for f in load_findings() if f.get("property") == "C12" and f.get("status", "open") == "open"}
    shrunk = set()

    stats = {"found": 0, "none": 0, "exception": 0, "rejected": 0}
    cnt = dict(uni_total=0, uni_found=0, weak_total=0, weak_found=0, tight_total=0, tight_found=0, retried_ok=0,
               abandoned=0, even_inv=0, nonmatrix_found=0)
    t0 = time.time()

    def process(kind, m, cfg):
        cfg = dict(cfg, kind=kind)
        meta = None
        if kind == "weak":
            meta, U = gen_weak(np, pcvl, rng, m)
        else:
            U = gen_matrix(np, pcvl, rng, kind, m)
        if cfg["rep"] is None:
            cfg["rep"] = rng.choice(reps_for(np, U, cfg["inv_h"])) if rng.chance(2, 3) else "Matrix"
        env["last_info"] = {"tries": 0, "abandoned": 0}
        status, fails = run_case(env, cfg, U)
        info = dict(env["last_info"])
        stats[status] += 1
        cnt["abandoned"] += info["abandoned"]
        if status == "found" and info["abandoned"] > 0:
            cnt["retried_ok"] += 1
            ctx.count("result.found-after-abandoned-tries")
            if (cfg["inv_h"] or cfg["inv_v"]) and info["tries"] % 2 == 0:
                cnt["even_inv"] += 1
                ctx.count("result.found-at-even-attempt-with-inversion")
        if status == "found" and cfg["rep"] != "Matrix":
            cnt["nonmatrix_found"] += 1
        universal = env["blocks"][cfg["block"]][0]
        tight = cfg.get("precision", 1e-6) < 1e-6
        if status in ("found", "none"):
            if kind == "weak":
                cnt["weak_total"] += 1
                cnt["weak_found"] += status == "found"
            elif tight:
                cnt["tight_total"] += 1
                cnt["tight_found"] += status == "found"
            elif universal:
                cnt["uni_total"] += 1
                cnt["uni_found"] += status == "found"
        ctx.count(f"kind.{kind}")
        ctx.count(f"block.{cfg['block']}")
        ctx.count(f"size.{m}")
        ctx.count(f"result.{status}")
        ctx.count(f"rep.{cfg['rep']}")
        for f in ("phase", "perm", "inv_h", "inv_v", "iib", "merge", "constraints", "direct"):
            if cfg[f]:
                ctx.count(f"flag.{f}")
        nontrivial = status == "found" and m >= 3
        sample = {"kind": kind, "m": m, "config": cfg, "status": status, "tries": info["tries"],
                  "abandoned_tries": info["abandoned"], "failures": [f[0] for f in fails]}
        if meta:
            sample["weak"] = meta
        ctx.case([kind, m, sorted(cfg.items()), [[repr(x) for x in row] for row in U.tolist()]], nontrivial, sample)
        for sig, what, exp, obs in fails:
            if sig in known or sig in shrunk:
                case = describe(cfg, U)          # recorded defect / already shrunk once: keep the raw case
            else:
                shrunk.add(sig)
                case = shrink(env, sig, kind, m, cfg, U)
            if meta:
                case["weak"] = meta if case["U"] == describe(cfg, U)["U"] else "matrix regenerated by the shrinker (same generator)"
            ctx.fail(sig, what, case, expected=str(exp)[:500], observed=str(obs)[:500])

    for kind, m, cfg in cases:
        process(kind, m, cfg)
    # tight-precision stream, continued until enough circuits were found at an EVEN attempt under an inversion flag (the
    # situation in which a pre-processing wrongly redone per attempt shows), within a fixed case budget
    n_tight, lo, hi, quota = 0, ctx.n(8, 60), ctx.n(16, 120), ctx.n(3, 20)
    while n_tight < lo or (cnt["even_inv"] < quota and n_tight < hi):
        process(*tight_cfg())
        n_tight += 1
    ctx.streams["decomposition"] = n_main
    ctx.streams["weakly-coupled"] = n_weak
    ctx.streams["tight-precision-retries"] = n_tight
    ctx.streams["universal-found-rate"] = f"{cnt['uni_found']}/{cnt['uni_total']}"
    ctx.streams["weakly-coupled-found-rate"] = f"{cnt['weak_found']}/{cnt['weak_total']}"
    ctx.streams["tight-precision-found-rate"] = f"{cnt['tight_found']}/{cnt['tight_total']}"
    ctx.streams["found-after-abandoned-tries"] = cnt["retried_ok"]
    ctx.streams["found-at-even-attempt-with-inversion"] = cnt["even_inv"]
    ctx.streams["found-from-non-Matrix-representation"] = cnt["nonmatrix_found"]
    ctx.notes.append(f"universal blocks: {cnt['uni_found']}/{cnt['uni_total']} decomposed within max_try (Haar/permutation/"
                     f"block/diagonal/sparse/real/signed-permutation inputs, default precision); weakly coupled inputs "
                     f"{cnt['weak_found']}/{cnt['weak_total']}; tight precision {cnt['tight_found']}/{cnt['tight_total']} "
                     f"(None accepted there: precision below the solver's accuracy); {cnt['abandoned']} abandoned tries in "
                     f"all, {cnt['retried_ok']} circuits returned after at least one abandoned try, {cnt['even_inv']} of "
                     f"them at an even attempt under inverse_h/inverse_v; {cnt['nonmatrix_found']} circuits from requests "
                     f"given as plain numpy arrays (float / int / views / read-only); results {stats}; "
                     f"{time.time() - t0:.1f}s")
    if cnt["retried_ok"] == 0:
        ctx.notes.append("WARNING: no case of this run returned a circuit after an abandoned try")
    if cnt["even_inv"] == 0:
        ctx.notes.append("WARNING: no circuit was found at an even attempt under an inversion flag in this run")
    # extraction cross-check on a small sample (same requests evaluated by vm_compute inside Coq)
    A = [[QI(1), QI(0)], [QI(0), QI(Fraction(1, 2), Fraction(1, 3))]]
    B = [[QI(1), QI(0)], [QI(Fraction(1, 1000)), QI(Fraction(1, 2), Fraction(1, 3))]]
    sw = [[QI(0), QI(1)], [QI(1), QI(0)]]
    reqs = [(1200, [Fraction(1, 10 ** 6), 2, A, B]), (1200, [Fraction(1, 10 ** 7), 2, A, B]),
            (1201, [Fraction(1, 10 ** 12), 2, 0, [[QI(0), QI(0, 1)], [QI(-1), QI(0)]], sw]),
            (1202, [2, sw, Fraction(1, 10 ** 12), [True, False, True, False, True], [[sw, sw]]])]
    a = ctx.model.run(reqs)
    b = ctx.model.vm_crosscheck(reqs, tag="c12")
    ctx.streams["vm-crosscheck"] = len(reqs)
    if a != b:
        ctx.fail("extraction-mismatch", "extracted runner and vm_compute disagree", {"requests": str(reqs)[:500]},
                 expected=str(b)[:500], observed=str(a)[:500])
    if a[0] != 1 or a[1] != 0 or a[2] != 1:
        ctx.fail("checker-selftest", "checker verdicts on the fixed sample are not (accept, reject, accept)",
                 {"requests": "fixed"}, expected="[1, 0, 1]", observed=str(a[:3]))


def shrink(env, sig, kind, m, cfg, U):
    """Smaller size / fewer options while the same signature persists (fresh matrices of the same kind)."""
    np, pcvl, ctx = env["np"], env["pcvl"], env["ctx"]
    best = (cfg, U)

    def still(c, M):
        if c.get("rep", "Matrix") not in reps_for(np, M, c["inv_h"]) + ["complex64", "list"]:
            return False                         # this container cannot hold that matrix
        try:
            _, fl = run_case(env, c, M)
        except Exception:
            return False
        return any(f[0] == sig for f in fl)

    for mm in range(2, m):
        M = gen_matrix(np, pcvl, ctx.rng, kind, mm)
        if still(cfg, M):
            best = (cfg, M)
            break
    cfg2, M = best
    for key, val in (("perm", False), ("constraints", False), ("merge", False), ("iib", True), ("phase", True),
                     ("inv_v", False), ("inv_h", False)):
        if cfg2[key] != val:
            c3 = dict(cfg2)
            c3[key] = val
            if still(c3, M):
                cfg2 = c3
    return describe(cfg2, M)


def replay(ctx, case):
    import numpy as np
    import perceval as pcvl
    env = {"np": np, "pcvl": pcvl, "ctx": ctx, "blocks": make_blocks(pcvl)}
    c = case["case"]
    U = np.array([[complex(a, b) for a, b in row] for row in c["U"]])
    status, fails = run_case(env, c["config"], U)
    print("status:", status)
    for f in fails:
        print("FAIL", f)
    if not fails:
        print("no failure on replay")
