"""C09 — sampling draws from the computed distribution and honours its limits."""
from __future__ import annotations
import json
import math
from collections import Counter
from fractions import Fraction

from ..common import un_q, frac_of_float
from .. import gen
from .c02 import rand_circ
from .c04 import rand_ps, remap_ps, show_ps, mixture_of_svd

LEVEL = "proof"
EXPLANATION = (
    "Proved in Coq for all inputs: (i) the sampling algorithm (inputs drawn from the source mixture restricted to "
    "inputs with at least `filter` photons, one exact draw per tag group, merge, detector kernel, rejection on "
    "filter / heralds / post-selection) induces exactly the conditioned distribution of strong simulation (C04's "
    "`condition`) and its two performance estimates are that distribution's physical and logical performances; "
    "(ii) every trace of the sampling loops respects the bounds, the accounting and the legality of emitted samples; "
    "(iii) probs_to_sample_count's repair ends on a table summing to the request for every oracle; (iv) the "
    "conversions preserve totals. NOT proved, only tested statistically: that the real pseudo-random primitives "
    "(exqalibur Clifford-Clifford sampler, random.choices, numpy) draw from their nominal laws, i.e. that the samples "
    "of the real Processor follow the model's exact conditional distribution. That tie is a chi-square goodness-of-fit "
    "test (N = 20000 samples per configuration, cells with expectation < 5 pooled, false-alarm level 1e-9 per test) "
    "and a binomial bound at the same level on the reported performances.")
RULE = ("streams: `loop` = NoisySamplingSimulator._noisy_sampling run on every (max_samples, max_shots) in "
        "{0,1,2,5} x {0,1,2,5,None} with an adversarial scripted provider / input generator (random filter, heralds, "
        "post-selection, keep_heralds, first-batch length), compared field by field with the extracted transition "
        "system; `simulator` = NoisySamplingSimulator.samples on the same grid with a scripted sampling backend "
        "(fast path, empty exits, re-scaled shot limit, source-defined or distribution input, threshold/PNR/no "
        "detectors, impossible heralds), compared with the extracted `sim_samples`; `rescaling` = _compute_samples_with_perf on adversarial floats "
        "(physical_perf one or two ulps above 1 - zpp) against the model's clamped limit; `bounds` = real "
        "Processor('CliffordClifford2017').samples and Sampler.samples on {0,1,2,5,None}^2 x random processors "
        "(C02 circuits m<=4, noise, heralds anywhere, filter, post-selection, none/PNR/threshold/PPNR detectors): "
        "count <= min, 0 when a limit is 0, every sample has m-#heralds modes, passes the post-selection and holds "
        ">= filter photons; `gof` = 20000 samples per configuration against the model's exact conditional "
        "distribution (fid 900, chi-square with pooling, level 1e-9) + performances within a binomial bound, also "
        "BSDistribution.sample, Clifford2017Backend.samples and one-at-a-time sample(); with BasicState + NoiseModel inputs (source path) AND custom SVDistribution inputs over all modes (distribution "
        "path: 1-5 members, vacuum member, distinguishability tags); `point-inputs` = one- and two-member SVDistributions "
        "(vacuum included) through a mode permutation with a satisfied herald: deterministic outcomes, every member drawn; "
        "`source-grid` = goodness-of-fit (N = 30000) on the cross-product of the source fields — both multi-photon models, "
        "g2 0.3/0.4, indistinguishability 0.5/0.3, transmittance, brightness, filter 0/1/n — on small interfering circuits "
        "(quick: stratified draw, always both models with partial distinguishability and a filter >= 1; thorough: whole grid); "
        "the random processors of gof / bounds / history range over EVERY NoiseModel field (g2_distinguishable both ways, "
        "phase_imprecision with the quantised matrix computed by the driver, phase_error with the matrix in force read back "
        "from the back-end and bounded against the nominal one); `history` = ONE long-lived Processor (imperfect source) through sample / reconfigure (filter up, down, to 0; input; "
        "noise; post-selection set or cleared) / sample again, every batch (5000 samples quick, 20000 thorough) judged by "
        "goodness-of-fit, performances, count and legality against the exact table of the configuration in force, computed from "
        "a fresh processor; failures shrunk to [sample, operations, sample]; `seed-sizes` = every seeded entry point taking a "
        "number of draws, run twice per draw count just below / at / above powers of ten and two up to 1e5 plus log-uniform "
        "ones, exact equality of digests and a different draw for another seed; `seed` = two runs after "
        "pcvl.random_seed(s) agree exactly on source emission, detector outcomes, BSDistribution.sample, "
        "random_unitary, one-at-a-time sample(), probs_to_sample_count; `counts` = probs_to_sample_count with "
        "recorded random draws against the extracted rounding+repair model (incl. tiny probabilities, counts 0/1, "
        "fall-backs) and conversion round trips. Non-trivial: a limit that binds, a rejection exit taken, a herald "
        "not on the last modes, noise, or a repaired table; distinct by full configuration.")
TRUSTED = ["model: coq/Model/Sampling.v, SamplingX.v (hand-written from noisy_sampling_simulator.py, conversion.py; tied by "
           "the `loop`, `simulator`, `counts` streams), Select.v / SelectX.v (C04), Detector.v (C08)",
           "the input mixture of a noisy processor is read from the implementation — Processor.source_distribution of a FRESH "
           "processor built at the configuration under test, never from the sampled object — and fed to the model; the Gallina "
           "model of C09 has no source of its own (the source model with its multi-photon switch is C06's, which ties "
           "generate_distribution to it)",
           "scipy.stats.chi2 for the p-values"]
ASSUMPTIONS = [
    "STATISTICAL, not proved: the real samplers (exqalibur Clifford2017, random.choices, numpy.random) are exact draws "
    "from their nominal laws; equality in distribution of Processor.samples with strong simulation is tested by "
    "goodness-of-fit at false-alarm level 1e-9 per configuration, never proved",
    "backend.samples(k) returns k states and the input generator returns the number of inputs it is asked for "
    "(checked on every run)",
    "the distribution path trims inputs of probability < max_p / min(max_samples, max_shots) before sampling "
    "(_preprocess_input_state); this by-design approximation (relative mass <= #inputs/N) is below the resolution of "
    "the test at N = 20000 and is not modelled",
    "floating-point rounding is modelled only where it decides an integer: Python round() in probs_to_sample_count "
    "and ceil() of the re-scaled shot limit (both enter the model as the exact rational value of the float)",
    "fid 902 is the current configuration of the model (clamped re-scaled shot limit, /repo 869f2c44); the pre-repair "
    "configuration (fid 912) only backs the *_old_code theorems",
    "bulk native sampling after random_seed is compared in distribution only (multi-threaded kernel)",
]

GRID = [0, 1, 2, 5, None]
LEVEL_P = 1e-9
Z9 = 6.2          # two-sided normal quantile for 1e-9 is 6.11


# ------------------------------------------------------------------ helpers
_SAMPLED = set()


def once(stream, nontriv, sample):
    """evidence keeps the first three samples: give it one informative case per stream"""
    if nontriv and stream not in _SAMPLED:
        _SAMPLED.add(stream)
        return {"stream": stream, **sample}
    return None


def ps_eval_py(tree, st):
    k = tree[0]
    if k == 0:
        return True
    if k == 1:
        x = sum(st[i] for i in tree[1])
        v = tree[3]
        return [x == v, x != v, x < v, x > v, x <= v, x >= v][tree[2]]
    if k == 5:
        return not ps_eval_py(tree[1], st)
    a, b = ps_eval_py(tree[1], st), ps_eval_py(tree[2], st)
    return (a and b) if k == 2 else (a or b) if k == 3 else (a != b)


def det_enc(d):
    if d is None:
        return []
    if d[0] == "pnr":
        return [0]
    if d[0] == "thr":
        return [1, 1, 1]
    return [1, d[1], d[2] if d[2] is not None else d[1]]


def det_build(d):
    from perceval.components import Detector
    if d[0] == "pnr":
        return Detector.pnr()
    if d[0] == "thr":
        return Detector.threshold()
    return Detector.ppnr(d[1], d[2])


PERFECT = dict(brightness=1.0, g2=0.0, g2_distinguishable=True, indistinguishability=1.0, transmittance=1.0,
               phase_imprecision=0.0, phase_error=0.0)


def rand_noise(r, n_tot, phase=True):
    """Every NoiseModel field that reaches the sampler: the source fields (brightness, g2 with BOTH multi-photon models,
    indistinguishability, transmittance — weak and strong values, g2 > 0 together with partial distinguishability and
    loss) and the circuit fields read through linear_circuit() (phase_imprecision = quantisation of the PS phases,
    phase_error = random error on the PS phases). Sizes are bounded so that the exact mixture stays small."""
    noise = dict(brightness=r.choice([1.0, 0.9, 0.6]), g2=r.choice([0.0, 0.05, 0.3, 0.4]),
                 g2_distinguishable=r.chance(1, 2),
                 indistinguishability=r.choice([1.0, 0.92, 0.75, 0.5]), transmittance=r.choice([1.0, 0.8, 0.5]),
                 phase_imprecision=r.choice([0.0, 0.0, 0.0, 0.1, 0.5]) if phase else 0.0,
                 phase_error=r.choice([0.0, 0.0, 0.0, 0.0, 0.05, 0.3]) if phase else 0.0)
    if n_tot > 2 or r.chance(1, 3):
        noise["g2"] = 0.0           # a double emission on each of 3 photons: hundreds of inputs
    if n_tot > 3:                   # keeps the exact mixture small (4 partially distinguishable photons = 72 inputs x 4 groups)
        noise["indistinguishability"] = 1.0
    if noise["g2"] == 0.0:
        noise["g2_distinguishable"] = True
    if noise == PERFECT:
        return None
    return noise


def float_unitary(cs, noise):
    """The circuit matrix with the PS phases quantised to multiples of phase_imprecision (computed here, not read from the
    sampled object): product of the exact component matrices, the quantised phase shifters in floating point."""
    import cmath
    m = cs["m"]
    q = noise.get("phase_imprecision", 0.0)
    U = [[complex(i == j) for j in range(m)] for i in range(m)]
    for off, lf in cs["circ"].items:
        if lf.kind == "PS":
            phi = float(lf.build().param("phi"))          # the value the component holds (wrapped into its range: C14)
            blk = [[cmath.exp(1j * (q * round(phi / q)))]]
        else:
            blk = [[complex(x) for x in row] for row in lf.U]
        E = [[complex(i == j) for j in range(m)] for i in range(m)]
        for i, row in enumerate(blk):
            for j, x in enumerate(row):
                E[off + i][off + j] = x
        U = [[sum(E[i][k] * U[k][j] for k in range(m)) for j in range(m)] for i in range(m)]
    return U


def qi_of_complex_matrix(U):
    from ..common import QI
    return [[QI(frac_of_float(complex(x).real), frac_of_float(complex(x).imag)) for x in row] for row in U]


def effective_U(cs):
    noise = cs.get("noise") or {}
    if noise.get("phase_imprecision", 0.0) > 0 and any(lf.kind == "PS" for _, lf in cs["circ"].items):
        return qi_of_complex_matrix(float_unitary(cs, noise))
    return cs["circ"].U


def rand_case(r, mmax=4, allow_dets=True):
    m = r.rint(2, mmax)
    c = rand_circ(r, m, r.chance(7, 8))
    nh = r.rint(0, min(2, m - 1))
    hmodes = sorted(r.shuffle(range(m))[:nh])
    heralds = {h: r.rint(0, 1) for h in hmodes}
    free = [j for j in range(m) if j not in heralds]
    nin = r.rint(1, min(3, len(free) + 1))
    inp = [0] * len(free)
    for _ in range(nin):
        inp[r.below(len(free))] += 1
    if sum(inp) + sum(heralds.values()) > 4:
        inp = [min(x, 1) for x in inp]
    n_tot = sum(inp) + sum(heralds.values())
    flt = r.rint(0, sum(inp))
    use_ps = r.chance(1, 3)
    ps_tree, ps_str = rand_ps(r, len(free)) if use_ps else ([0], None)
    noise = rand_noise(r, n_tot) if r.chance(3, 5) else None
    if noise and noise["g2"] > 0 and noise["indistinguishability"] < 1 and r.chance(2, 3):
        flt = max(flt, 1)        # a filter >= 1 makes the sampler draw its inputs from the source's event table
    dets = [None] * m
    kind = r.choice(["none", "none", "thr", "ppnr", "pnr", "mixed", "mixed", "partial"]) if allow_dets else "none"
    if kind == "thr":
        dets = [("thr",)] * m
    elif kind == "pnr":
        dets = [("pnr",)] * m
    elif kind == "ppnr":
        w = r.rint(2, 3)
        dets = [("ppnr", w, r.choice([None, w, w - 1]))] * m
    elif kind == "mixed":
        dets = [r.choice([("thr",), ("pnr",), ("ppnr", 2, None)]) for _ in range(m)]
    elif kind == "partial":      # detectors on some modes only (None elsewhere = perfect reading in strong simulation)
        dets = [r.choice([("thr",), None, ("ppnr", 2, None)]) for _ in range(m)]
        if not any(dets):
            dets[0] = ("thr",)
        if all(dets):
            dets[-1] = None
    svd = None
    if r.chance(2, 5):
        # custom mixed input over ALL modes (Processor.with_input(SVDistribution)): the distribution path of the sampler.
        # Members: Fock states with at most 3 photons, possibly the vacuum, possibly with distinguishability tags;
        # weights k/sum with k in 1..5, so none is below the sampler's trimming threshold max_p / N.
        svd, seen = [], set()
        for _ in range(r.rint(1, 4)):
            st = [0] * m
            for _ in range(r.choice([0, 1, 1, 2, 2, 3])):
                st[r.below(m)] += 1
            tags = [[r.below(2) for _ in range(k)] for k in st] if r.chance(1, 3) else None
            if sum(st) == 0:
                tags = None
            key = svd_state_str(st, tags)          # the state as the library will key it
            if key not in seen:
                seen.add(key)
                svd.append([st, tags, r.rint(1, 5)])
        if r.chance(1, 2) and not any(sum(e[0]) == 0 for e in svd):
            svd.append([[0] * m, None, r.rint(1, 5)])
        nmax = max(sum(e[0]) for e in svd)
        flt = r.choice([0, 0, r.rint(0, max(nmax - sum(heralds.values()), 0))])
        noise = None
    return dict(circ=c, m=m, heralds=heralds, free=free, inp=inp, flt=flt, ps_tree=ps_tree, ps_str=ps_str,
                noise=noise, dets=dets, det_kind=kind, svd=svd)


def svd_state_str(st, tags):
    if tags is None:
        return "|" + ",".join(str(k) for k in st) + ">"
    return "|" + ",".join("".join("{_:%d}" % t for t in tg) if tg else "0" for tg in tags) + ">"


def build_svd(svd):
    import perceval as pcvl
    tot = sum(w for _, _, w in svd)
    return pcvl.SVDistribution({pcvl.StateVector(pcvl.BasicState(svd_state_str(st, tags))): w / tot for st, tags, w in svd})


def describe(cs):
    return {"circuit": cs["circ"].describe(), "heralds": {str(k): v for k, v in cs["heralds"].items()},
            "input(non-herald modes)": cs["inp"] if not cs.get("svd") else None,
            "input(SVDistribution, all modes)": [[svd_state_str(st, tags), w] for st, tags, w in cs["svd"]] if cs.get("svd") else None,
            "filter": cs["flt"],
            "postselect(circuit modes)": show_ps(remap_ps(cs["ps_tree"], cs["free"])) if cs["ps_str"] else None,
            "noise": cs["noise"], "detectors": [list(d) if d else None for d in cs["dets"]]}


def build_proc(cs):
    import perceval as pcvl
    from perceval.utils import PostSelect, NoiseModel
    p = pcvl.Processor("CliffordClifford2017", cs["circ"].build(), noise=NoiseModel(**cs["noise"]) if cs["noise"] else None)
    for h, v in cs["heralds"].items():
        p.add_herald(h, v)
    if cs["ps_str"]:
        p.set_postselection(PostSelect(show_ps(remap_ps(cs["ps_tree"], cs["free"]))))
    for j, d in enumerate(cs["dets"]):
        if d is not None:
            p.add(j, det_build(d))
    p.min_detected_photons_filter(cs["flt"])
    if cs.get("svd"):
        p.with_input(build_svd(cs["svd"]))
    else:
        p.with_input(pcvl.BasicState(cs["inp"]))
    return p


def model_cost(cs, mix):
    """rough size of the exact computation: number of (merged outcome, reading) terms of the un-merged shot law"""
    det = {"none": 1, "pnr": 1, "thr": 1, "partial": 2, "mixed": 3, "ppnr": 4}[cs["det_kind"]]
    tot = 0
    for _, groups in mix:
        t = 1
        for g in groups:
            t *= math.comb(cs["m"] + sum(g) - 1, sum(g))
        tot += t * det ** max(sum(sum(g) for g in groups) - 1, 0)
    return tot


def model_cost_req(rq):
    return sum(math.prod(math.comb(rq[1][0] + sum(g) - 1, sum(g)) for g in pq[1]) for pq in rq[1][2])


def model_req(cs, mix, F, U=None):
    return (900, [cs["m"], U if U is not None else effective_U(cs), mix, [[h, v] for h, v in cs["heralds"].items()],
                  remap_ps(cs["ps_tree"], cs["free"]), F, 0, [det_enc(d) for d in cs["dets"]] if any(cs["dets"]) else []])


def exact_tables(ctx, reqs):
    """one runner per request with a wall-clock budget each (the cost is dominated by the size of the rationals, which no
    a-priori estimate predicts well); None for a request over budget"""
    import subprocess
    from concurrent.futures import ThreadPoolExecutor
    budget = 10 if ctx.quick() else 120

    def one(rq):
        try:
            return ctx.model.run([rq], timeout=budget, jobs=1)[0]
        except subprocess.TimeoutExpired:
            return None

    with ThreadPoolExecutor(8) as ex:
        return list(ex.map(one, reqs))


def judge_batch(res, wd, table, mix, F, N):
    """One batch of samples against the exact table of the CURRENT configuration: count, support, chi-square, performances.
    Returns (None | (signature suffix, text), statistics)."""
    e_phys, e_log, e_dist = un_pipe(table[1])
    obs = Counter(tuple(s) for s in res["results"])
    n = sum(obs.values())
    pv, stat, df, impossible = chi_square(e_dist, obs, n)
    r_phys, r_log = float(res["physical_perf"]), float(res["logical_perf"])
    st = {"N": n, "chi2": stat, "df": df, "p": pv, "performances(model)": [e_phys, e_log], "performances(samples)": [r_phys, r_log],
          "expected": sorted(e_dist.items()), "observed": sorted(obs.items())}
    if wd is not None and wd.tripped:
        return ("never-accepting", f"{wd.calls} iterations gave {n} of {N} samples; the model's acceptance probability is {e_phys * e_log:.4f}"), st
    if n != N:
        return ("count", f"{n} samples instead of {N}"), st
    if impossible:
        return ("impossible-outcome", f"outcome of model probability 0 sampled: {list(impossible[0])}"), st
    if pv < LEVEL_P:
        return ("distribution", f"chi-square p-value {pv:.3g} < 1e-9 (stat {stat:.1f}, df {df})"), st
    if e_phys > 0 and e_log > 0:
        n_l = n / e_log
        tol_l = Z9 * math.sqrt(e_log * (1 - e_log) / n_l) + 2 / n_l
        if abs(r_log - e_log) > tol_l:
            return ("logical_perf", f"logical_perf {r_log:.5f} vs {e_log:.5f} (tolerance {tol_l:.5f})"), st
        pre = sum(float(pq[0]) for pq in mix if sum(sum(g) for g in pq[1]) >= F)
        q = min(e_phys / pre, 1.0) if pre > 0 else 0.0
        n_p = n_l / q if q > 0 else 0
        if n_p > 0:
            tol_p = pre * (Z9 * math.sqrt(q * (1 - q) / n_p) + 2 / n_p) + 1e-9
            # the statement only asks for an estimate of P(filter passes): an estimator that counts every shot from the
            # un-restricted source is as good; its binomial bound is the tolerance (the code's own estimate is exact in
            # its source-level part, hence much tighter)
            n_all = n_l / e_phys
            tol_p = max(tol_p, Z9 * math.sqrt(e_phys * (1 - e_phys) / n_all) + 2 / n_all)
            if abs(r_phys - e_phys) > tol_p:
                return ("physical_perf", f"physical_perf {r_phys:.5f} vs {e_phys:.5f} (tolerance {tol_p:.5f})"), st
    return None, st


def un_pipe(x):
    # (a matrix given in floating point is unitary up to 1e-16 only: performances are clamped to [0, 1])
    return min(float(un_q(x[0])), 1.0), min(float(un_q(x[1])), 1.0), {tuple(e[0]): float(un_q(e[1])) for e in x[2]}


def chi_square(expected: dict, observed: Counter, n: int):
    """Pearson chi-square with pooling of the cells whose expectation is < 5. Returns (p, stat, df, impossible)."""
    from scipy.stats import chi2
    impossible = [k for k in observed if expected.get(k, 0.0) <= 0.0]
    stat, cells, pe, po = 0.0, 0, 0.0, 0
    for k, pk in expected.items():
        e = pk * n
        o = observed.get(k, 0)
        if e >= 5:
            stat += (o - e) ** 2 / e
            cells += 1
        else:
            pe += e
            po += o
    if pe > 0:
        if pe >= 1e-6:
            stat += (po - pe) ** 2 / pe if pe >= 1 else 0.0
            cells += 1 if pe >= 1 else 0
    df = max(cells - 1, 0)
    p = float(chi2.sf(stat, df)) if df > 0 else 1.0
    return p, stat, df, impossible


class Watchdog:
    """progress callback (the user's side of the API): counts the iterations of the sampling loop and asks for
    cancellation beyond a budget far above anything a correct sampler needs, so that a sampler that never accepts
    is reported instead of hanging the run"""

    def __init__(self, budget):
        self.budget, self.calls, self.tripped = budget, 0, False

    def __call__(self, progress, message=None):
        self.calls += 1
        if self.calls > self.budget:
            self.tripped = True
            return {"cancel_requested": True}
        return None


def legal_sample(cs, s):
    """None if legal, else the reason."""
    st = list(s)
    if len(st) != len(cs["free"]):
        return f"{len(st)} modes instead of {len(cs['free'])}"
    if not ps_eval_py(cs["ps_tree"], st):
        return "post-selection not satisfied"
    if sum(st) < cs["flt"]:
        return f"{sum(st)} photons on the non-heralded modes < filter {cs['flt']}"
    return None


# ------------------------------------------------------------------ stream: loop
class _Cut(Exception):
    pass


def stream_loop(ctx):
    import perceval as pcvl
    from perceval.simulators import NoisySamplingSimulator
    from perceval.utils import PostSelect
    from perceval.components.detector import DetectionType
    rng = ctx.rng.fork("loop")
    BS_ = pcvl.BasicState
    reps = ctx.n(6, 60)
    reqs, pend = [], []
    for ms in GRID[:-1]:
        for msh in GRID:
            for rep in range(reps):
                r = rng.fork((ms, msh, rep))
                m = r.rint(2, 4)
                nh = r.rint(0, m - 1)
                heralds = {h: r.rint(0, 1) for h in sorted(r.shuffle(range(m))[:nh])}
                free = [j for j in range(m) if j not in heralds]
                F = r.rint(0, 3)
                ps_tree, ps_str = rand_ps(r, len(free)) if r.chance(1, 2) else ([0], None)
                ps_abs = remap_ps(ps_tree, free)
                keep = r.chance(1, 4)
                fb = r.choice([0, 0, 1, 2, 3, 7])
                sim = NoisySamplingSimulator(pcvl.Clifford2017Backend())
                sim.set_selection(min_detected_photons_filter=F, postselect=PostSelect(show_ps(ps_abs)) if ps_str else PostSelect(),
                                  heralds=dict(heralds))
                sim.keep_heralds(keep)
                consumed, requests = [], []
                pr = r.fork("oracle")
                bias = pr.below(3)      # 0: anything, 1: heralds mostly satisfied, 2: poor states

                class Prov:
                    def sample_from(self, bs):
                        if len(consumed) >= 300:
                            raise _Cut()
                        st = [pr.rint(0, 2) if bias != 2 else pr.rint(0, 1) * pr.rint(0, 1) for _ in range(m)]
                        if bias == 1 or pr.chance(1, 2):
                            for h, v in heralds.items():
                                st[h] = v
                        consumed.append(st)
                        return BS_(st)

                def generator(k):
                    requests.append(k)
                    return [BS_([0] * m)] * k

                case = {"max_samples": ms, "max_shots": msh, "filter": F, "heralds": {str(k): v for k, v in heralds.items()},
                        "postselect": show_ps(ps_abs) if ps_str else None, "keep_heralds": keep, "first_batch": fb}
                try:
                    res = sim._noisy_sampling(generator, Prov(), ms, msh, DetectionType.PNR, [BS_([0] * m)] * fb)
                except _Cut:
                    ctx.count("loop.cut")
                    continue
                except Exception as e:
                    ctx.fail(f"loop-exception-{type(e).__name__}", f"_noisy_sampling raised {type(e).__name__}: {e}", case)
                    continue
                reqs.append((901, [ms, msh if msh is not None else [], F, [[h, v] for h, v in heralds.items()], ps_abs,
                                   keep, fb, consumed]))
                pend.append((case, res, list(consumed), list(requests)))
    outs = ctx.model.run(reqs)
    for (case, res, consumed, requests), out in zip(pend, outs):
        mout, idx, batch, notsel, notphys, shots, mreqs = out
        got = [list(s) for s in res["results"]]
        ms, msh = case["max_samples"], case["max_shots"]
        lim = ms if msh is None else min(ms, msh)
        nontriv = (len(got) == lim and lim > 0) or notsel > 0 or notphys > 0
        ctx.case(["loop", case, consumed], nontriv, once("loop", nontriv and notsel > 0 and notphys > 0,
                                                         {**case, "oracle": consumed[:8], "results": got[:6]}))
        ctx.count(f"loop.limits.{ms}.{msh}")
        case = {**case, "oracle": consumed}
        if len(got) > lim:
            ctx.fail("loop-bound", "more samples than min(max_samples, max_shots)", case, lim, len(got))
        if got != mout:
            ctx.fail("loop-results", "emitted samples differ from the transition system", case, mout, got)
            continue
        if shots != len(consumed):
            ctx.fail("loop-shots", "number of iterations differs", case, shots, len(consumed))
            continue
        if mreqs != requests:
            ctx.fail("loop-generator-requests", "input batches requested differ", case, mreqs, requests)
        sel = len(mout)
        e_phys = (sel + notsel) / (sel + notsel + notphys) if sel > 0 else 0
        e_log = sel / (sel + notsel) if sel > 0 else 0
        if abs(res["physical_perf"] - e_phys) > 1e-12 or abs(res["logical_perf"] - e_log) > 1e-12:
            ctx.fail("loop-perf", "performance estimates differ from the counts of the three exits", case,
                     [e_phys, e_log], [res["physical_perf"], res["logical_perf"]])
    ctx.streams["loop"] = len(pend)
    return reqs[:2]


# ------------------------------------------------------------------ stream: simulator (scripted backend)
def stream_simulator(ctx):
    import perceval as pcvl
    from perceval.backends import ASamplingBackend
    from perceval.simulators import NoisySamplingSimulator
    from perceval.utils import PostSelect
    from perceval.components import Detector, Source
    rng = ctx.rng.fork("sim")
    BS_ = pcvl.BasicState

    class Scripted(ASamplingBackend):
        def __init__(self, r, m, bias, heralds):
            super().__init__()
            self.r, self.mm, self.bias, self.h, self.log = r, m, bias, heralds, []

        def _one(self):
            st = [self.r.rint(0, 2) if self.bias != 2 else self.r.rint(0, 1) for _ in range(self.mm)]
            if self.bias == 1 or self.r.chance(1, 2):
                for h, v in self.h.items():
                    st[h] = v
            return st

        def samples(self, count):
            if sum(len(b) for b in self.log) > 20000:
                raise _Cut()
            batch = [self._one() for _ in range(count)]
            self.log.append(batch)
            return [BS_(s) for s in batch]

        def sample(self):
            return self.samples(1)[0]

        @property
        def name(self):
            return "Scripted"

    reps = ctx.n(5, 50)
    reqs, pend = [], []
    for ms in GRID[:-1]:
        for msh in GRID:
            for rep in range(reps):
                r = rng.fork((ms, msh, rep))
                m = r.rint(2, 4)
                nh = r.rint(0, m - 1)
                heralds = {h: r.rint(0, 2) for h in sorted(r.shuffle(range(m))[:nh])}
                free = [j for j in range(m) if j not in heralds]
                F = r.rint(0, 3)
                ps_tree, ps_str = rand_ps(r, len(free)) if r.chance(1, 3) else ([0], None)
                ps_abs = remap_ps(ps_tree, free)
                keep = r.chance(1, 4)
                det_kind = r.choice(["none", "none", "pnr", "thr"])
                source_defined = r.chance(1, 2)
                n_in = r.rint(1, 3)
                inp = [0] * m
                for _ in range(n_in):
                    inp[r.below(m)] += 1
                bias = r.below(3)
                be = Scripted(r.fork("oracle"), m, bias, heralds)
                be.set_circuit(pcvl.Circuit(m))
                sim = NoisySamplingSimulator(be)
                sim.sleep_between_batches = 0
                sim.set_selection(min_detected_photons_filter=F, postselect=PostSelect(show_ps(ps_abs)) if ps_str else PostSelect(),
                                  heralds=dict(heralds))
                sim.keep_heralds(keep)
                dets = None
                if det_kind == "pnr":
                    dets = [Detector.pnr() for _ in range(m)]
                elif det_kind == "thr":
                    dets = [Detector.threshold() for _ in range(m)]
                sim.set_detectors(dets)
                hd_ok = all(v <= 1 for v in heralds.values()) if det_kind == "thr" else True
                fast = (not heralds) and (not ps_str) and det_kind != "thr"
                src = Source()
                svd = (src, BS_(inp)) if source_defined else pcvl.SVDistribution(BS_(inp))
                # the float product of _compute_samples_with_perf, recomputed with the same operations
                n = sum(inp)
                phys, zpp = (1.0 if n >= F else 0.0), 0.0
                x = Fraction(0)
                if msh is not None and F >= 2:
                    x = frac_of_float(msh * phys / (1 - zpp))
                case = {"max_samples": ms, "max_shots": msh, "filter": F, "heralds": {str(k): v for k, v in heralds.items()},
                        "postselect": show_ps(ps_abs) if ps_str else None, "keep_heralds": keep, "detectors": det_kind,
                        "input": inp, "source_defined": source_defined}
                lim = ms if msh is None else min(ms, msh)
                if msh is None and not fast and n < F:
                    ctx.count("sim.skipped-never-accepting")     # unbounded loop by construction (filter above the input)
                    continue
                try:
                    res = sim.samples(svd, ms, msh)
                except _Cut:
                    ctx.count("sim.cut")
                    continue
                except Exception as e:
                    ctx.fail(f"simulator-exception-{type(e).__name__}", f"NoisySamplingSimulator.samples raised {type(e).__name__}: {e}", case)
                    continue
                oracle = []
                for b in be.log:
                    oracle += list(reversed(b))
                if det_kind == "thr":
                    oracle = [[min(v, 1) for v in s] for s in oracle]
                reqs.append((902, [ms, msh if msh is not None else [], F, [[h, v] for h, v in heralds.items()], ps_abs, keep,
                                   hd_ok, fast, source_defined, x, oracle[:400]]))
                pend.append((case, res, be.log, lim))
    outs = ctx.model.run(reqs)
    for (case, res, log, lim), out in zip(pend, outs):
        got = [list(s) for s in res["results"]]
        ctx.count(f"sim.kind.{out[0]}")
        ctx.case(["sim", case, log[:3]], out[0] != 0 or lim > 0, once("simulator", out[0] == 2 and len(got) > 1, {**case, "results": got[:5]}))
        if len(got) > lim:
            ctx.fail("simulator-bound", "more samples than min(max_samples, max_shots)", case, lim, len(got))
        if out[0] == 0:
            if got:
                ctx.fail("simulator-empty", "model predicts an empty result", case, [], got)
        elif out[0] == 1:
            sizes = [len(b) for b in log]
            flat = [s for b in log for s in b]
            if sizes != out[1] or got != flat:
                ctx.fail("simulator-fast-path", "fast path batches / results differ", case, out[1], sizes)
        else:
            mout, idx, batch, notsel, notphys, shots, mreqs = out[1]
            if got != mout:
                ctx.fail("simulator-results", "emitted samples differ from sim_samples", case, mout, got)
                continue
            sel = len(mout)
            e_log = sel / (sel + notsel) if sel > 0 else 0
            if abs(res["logical_perf"] - e_log) > 1e-12:
                ctx.fail("simulator-perf", "logical performance differs from the counts", case, e_log, res["logical_perf"])
    ctx.streams["simulator"] = len(pend)

    # ---- _compute_samples_with_perf on adversarial floats (a probability table may sum to 1.0000000000000002)
    r = rng.fork("scale")
    sreqs, spend = [], []
    sim = NoisySamplingSimulator(pcvl.Clifford2017Backend())
    for i in range(ctx.n(200, 2000)):
        F = r.rint(0, 3)
        msh = r.choice([None, 0, 1, 2, 5, 7, 100, 12345])
        prep = r.choice([0, 1, 2, 5, 50])
        zpp = r.choice([0.0, 0.0, 0.1, 0.001, r.rint(0, 999) / 1000])
        phys = r.choice([1 - zpp, (1 - zpp) * 1.0000000000000002, 1.0000000000000002 * (1 - zpp) + 2e-16, 0.0, (1 - zpp) / 3,
                         (1 - zpp) * r.rint(0, 1000) / 1000])
        sim.set_min_detected_photons_filter(F)
        got = sim._compute_samples_with_perf(prep, phys, zpp, msh)
        xq = frac_of_float(msh * phys / (1 - zpp)) if (msh is not None and F >= 2) else Fraction(0)
        sreqs.append((908, [0, F, msh if msh is not None else [], xq, prep]))
        spend.append(({"filter": F, "max_shots": msh, "prepare_samples": prep, "physical_perf": phys, "zpp": zpp}, got))
    for (case, got), out in zip(spend, ctx.model.run(sreqs)):
        exp = (out[0], out[1] if not isinstance(out[1], list) else None)
        over = case["max_shots"] is not None and got[1] > case["max_shots"]
        ctx.case(["scale", case], case["filter"] >= 2 and case["max_shots"] is not None, None)
        ctx.count("scale.clamped" if (case["filter"] >= 2 and case["max_shots"] and case["physical_perf"] > 1 - case["zpp"]) else "scale.plain")
        if over:
            ctx.fail("bounds-max_shots-exceeded-by-float-rescaling", "re-scaled shot limit exceeds max_shots", case, case["max_shots"], got[1])
        elif tuple(got) != exp:
            ctx.fail("simulator-rescaling", "_compute_samples_with_perf differs from the model", case, exp, list(got))
    ctx.streams["rescaling"] = len(spend)
    return reqs[:1] + sreqs[:1]


# ------------------------------------------------------------------ stream: bounds and legality on the real processor
def run_samples(p, ms, msh, wd=None):
    """Processor.samples for an integer max_samples, Sampler for None."""
    from perceval.algorithm import Sampler
    if ms is None:       # the job layer swallows exceptions (C18's subject): call the wrapper the job would call
        smp = Sampler(p, max_shots_per_call=msh) if msh is not None else Sampler(p)
        return smp._samples_wrapper(None, wd)
    return p.samples(ms, msh, wd)


def stream_bounds(ctx, cases_with_accept):
    rng = ctx.rng.fork("bounds")
    n_eval = 0
    for ci, (cs, accept) in enumerate(cases_with_accept):
        desc = describe(cs)
        for ms in GRID:
            for msh in GRID:
                if msh is None and (ms is None or accept < 0.02):
                    if ms is None:
                        try:
                            run_samples(build_proc(cs), None, None)
                            ctx.fail("bounds-no-limit-accepted", "Sampler.samples without any limit did not raise", desc)
                        except RuntimeError:
                            ctx.count("bounds.both-None-rejected")
                        except Exception as e:
                            ctx.fail(f"bounds-exception-{type(e).__name__}", f"raised {type(e).__name__}: {e}", desc)
                    continue
                if cs.get("svd") and msh is None and ms is not None and ms < 5:
                    # the distribution path trims the inputs of probability < max_p / max_samples before sampling (by design,
                    # see ASSUMPTIONS): with max_samples 1 or 2 only the most probable inputs remain, and if none of them can
                    # pass the selection an unbounded call never returns although the processor's acceptance is fine.
                    # Outside the model (the mixture is not trimmed there): not sampled, counted.
                    ctx.count("bounds.skipped-unbounded-call-on-trimmed-inputs")
                    continue
                case = {**desc, "max_samples": ms, "max_shots": msh}
                wd = Watchdog(50000)       # <= 5 samples at acceptance >= 0.02: ~250 iterations expected
                try:
                    p = build_proc(cs)
                    res = run_samples(p, ms, msh, wd)
                except Exception as e:
                    sig = f"bounds-exception-{type(e).__name__}"
                    if isinstance(e, AttributeError) and "detect" in str(e) and any(d is None for d in cs["dets"]) and any(cs["dets"]):
                        sig = "samples-None-detector-AttributeError"
                    ctx.fail(sig, f"samples raised {type(e).__name__}: {e}", case)
                    continue
                got = list(res["results"])
                n_eval += 1
                if wd.tripped:
                    ctx.fail("samples-never-accepting", f"the sampling loop ran {wd.calls} iterations without reaching {ms} samples "
                             f"although a shot is accepted with probability {accept:.3f}", case, ms, len(got))
                    continue
                lim = min(x for x in (ms, msh) if x is not None)
                ctx.case(["bounds", case], len(got) == lim and lim > 0, None)
                ctx.count("bounds.returned." + ("limit" if len(got) == lim else "below"))
                if len(got) > lim:
                    noisy_filter = False
                    if cs["flt"] >= 2 and msh is not None and len(got) == msh + 1 and (ms is None or ms > msh) and not cs.get("svd"):
                        _, ph_, zpp_ = p._source._compute_prob_table(p.input_state.n, cs["flt"])
                        noisy_filter = zpp_ < 1 and math.ceil(msh * ph_ / (1 - zpp_)) == msh + 1
                    ctx.fail("bounds-max_shots-exceeded-by-float-rescaling" if noisy_filter else "bounds-exceeded",
                             "more samples than min(max_samples, max_shots)", case, lim, len(got))
                if lim == 0 and got:
                    ctx.fail("bounds-zero", "samples returned although a limit is 0", case, 0, len(got))
                for s in got:
                    why = legal_sample(cs, s)
                    if why:
                        hp = sum(cs["heralds"].values())
                        below = why.endswith(f"filter {cs['flt']}") and hp > 0 and sum(s) + hp >= cs["flt"]
                        ctx.fail("samples-filter-omits-herald-photons" if below else "bounds-illegal-sample",
                                 "illegal sample returned: " + why, case, None, list(s))
                        break
    ctx.streams["bounds"] = n_eval


# ------------------------------------------------------------------ stream: goodness of fit
def gof_processor(ctx, cs, out_spec, out_impl, N, tag):
    import perceval as pcvl
    desc = describe(cs)
    e_phys, e_log, e_dist = un_pipe(out_spec[1])
    herald_photons = sum(cs["heralds"].values())
    try:
        p = build_proc(cs)
        pcvl.random_seed(ctx.seed * 1000003 + tag)
        wd = Watchdog(int(4 * N / max(e_phys * e_log, 1e-3)) + 100000)
        res = p.samples(N, None, wd)
    except Exception as e:
        sig = f"gof-exception-{type(e).__name__}"
        if isinstance(e, AttributeError) and "detect" in str(e) and any(d is None for d in cs["dets"]) and any(cs["dets"]):
            sig = "samples-None-detector-AttributeError"
        ctx.fail(sig, f"samples raised {type(e).__name__}: {e}", desc)
        return
    if (cs["noise"] or {}).get("phase_error", 0.0) > 0 and any(lf.kind == "PS" for _, lf in cs["circ"].items):
        # the phase shifters drew a random error when the back-end computed its matrix: the reference is the exact table
        # of the matrix in force (white-box read), which must stay within the announced error of the nominal one
        import subprocess
        import numpy as np
        used = np.asarray(p.backend._umat)
        nominal = np.asarray(float_unitary(cs, cs["noise"]) if cs["noise"].get("phase_imprecision", 0.0) > 0
                             else [[complex(x) for x in row] for row in cs["circ"].U])
        n_ps = sum(lf.kind == "PS" for _, lf in cs["circ"].items)
        dev = float(np.max(np.abs(used - nominal)))
        ctx.count("gof.phase_error")
        if dev > n_ps * cs["noise"]["phase_error"] + 1e-9 or not np.allclose(used @ used.conj().T, np.eye(cs["m"]), atol=1e-9):
            ctx.fail("gof-phase_error-matrix", f"the matrix used for sampling is {dev:.4f} away from the nominal one "
                     f"({n_ps} phase shifters, phase_error {cs['noise']['phase_error']}) or not unitary", desc)
            return
        try:
            mix_ = mixture_of_svd(build_proc(cs).source_distribution)
            F_ = cs["flt"] + herald_photons
            tab = ctx.model.run([model_req(cs, mix_, F_, U=qi_of_complex_matrix(used.tolist()))], timeout=30 if ctx.quick() else 300, jobs=1)[0]
        except subprocess.TimeoutExpired:
            ctx.count("model.table-over-budget")
            return
        out_spec = list(tab) + [out_spec[3]]
        out_impl = None
        e_phys, e_log, e_dist = un_pipe(out_spec[1])
    obs = Counter(tuple(s) for s in res["results"])
    n = sum(obs.values())
    pv, stat, df, impossible = chi_square(e_dist, obs, n)
    case = {**desc, "N": n, "seed": ctx.seed * 1000003 + tag, "chi2": stat, "df": df, "p": pv}
    nontriv = df >= 1 and (cs["noise"] is not None or herald_photons > 0 or any(cs["dets"]) or cs["ps_str"] is not None
                           or bool(cs.get("svd")))
    ctx.case(["gof", desc], nontriv, once("gof", nontriv, {**case, "expected_top": sorted(e_dist.items(), key=lambda kv: -kv[1])[:4],
                                                          "observed_top": obs.most_common(4), "performances(model)": [e_phys, e_log],
                                                          "performances(samples)": [float(res["physical_perf"]), float(res["logical_perf"])]}))
    ctx.count("gof.det." + cs["det_kind"])
    ctx.count("gof.noise." + ("on" if cs["noise"] else "off"))
    if cs["noise"]:
        nz = cs["noise"]
        if nz["g2"] > 0:
            ctx.count("gof.noise.g2." + ("distinguishable" if nz["g2_distinguishable"] else "indistinguishable")
                      + ("+partial-distinguishability" if nz["indistinguishability"] < 1 else "") + ("+filter>=1" if cs["flt"] + herald_photons >= 1 else ""))
        if nz["phase_imprecision"] > 0:
            ctx.count("gof.noise.phase_imprecision")
    ctx.count("gof.input." + ("SVDistribution" + ("+vacuum" if any(sum(e[0]) == 0 for e in cs["svd"]) else "") if cs.get("svd") else "BasicState"))
    ctx.count("gof.heralds.%d" % len(cs["heralds"]))
    bad = None
    if wd.tripped:
        bad = ("samples-never-accepting", f"{wd.calls} iterations gave {n} of {N} samples; the model's acceptance probability is {e_phys * e_log:.4f}")
    elif n != N:
        bad = ("gof-count", f"{n} samples instead of {N}")
    elif impossible:
        bad = ("gof-impossible-outcome", f"outcome of model probability 0 sampled: {list(impossible[0])}")
    elif pv < LEVEL_P:
        bad = ("gof-distribution", f"chi-square p-value {pv:.3g} < 1e-9 (stat {stat:.1f}, df {df})")
    r_phys, r_log = float(res["physical_perf"]), float(res["logical_perf"])
    if bad is None and e_phys > 0 and e_log > 0:
        n_l = n / e_log                       # trials of the logical estimate
        tol_l = Z9 * math.sqrt(e_log * (1 - e_log) / n_l) + 2 / n_l
        if abs(r_log - e_log) > tol_l:
            bad = ("gof-logical_perf", f"logical_perf {r_log:.5f} vs {e_log:.5f} (tolerance {tol_l:.5f})")
        pre = sum(float(pq[0]) for pq in out_spec[3])
        q = min(e_phys / pre, 1.0) if pre > 0 else 0.0
        n_p = n_l / q if q > 0 else 0
        if bad is None and n_p > 0:
            tol_p = pre * (Z9 * math.sqrt(q * (1 - q) / n_p) + 2 / n_p) + 1e-9
            n_all = n_l / e_phys         # see judge_batch
            tol_p = max(tol_p, Z9 * math.sqrt(e_phys * (1 - e_phys) / n_all) + 2 / n_all)
            if abs(r_phys - e_phys) > tol_p:
                bad = ("gof-physical_perf", f"physical_perf {r_phys:.5f} vs {e_phys:.5f} (tolerance {tol_p:.5f})")
    if bad is None:
        return
    sig, what = bad
    # regression diagnosis (defect repaired by 5caa1a68): does the observation fit the distribution conditioned WITHOUT the
    # herald photons in the filter?
    if herald_photons > 0 and out_impl is not None:
        i_phys, i_log, i_dist = un_pipe(out_impl[1])
        pv2, _, _, imp2 = chi_square(i_dist, obs, n)
        if pv2 >= LEVEL_P and not imp2 and abs(r_phys - i_phys) < 0.02:
            sig = "samples-filter-omits-herald-photons"
            what += f"; fits the conditioning with filter = {cs['flt']} instead of {cs['flt']}+{herald_photons} (p={pv2:.3g}, physical_perf {i_phys:.4f})"
    ctx.fail(sig, what, {**case, "expected": sorted(e_dist.items()), "observed": sorted(obs.items())},
             [e_phys, e_log], [r_phys, r_log])


def stream_gof_primitives(ctx, N):
    import perceval as pcvl
    rng = ctx.rng.fork("prim")
    BS_ = pcvl.BasicState
    n_cfg = ctx.n(6, 40)
    reqs, pend = [], []
    for i in range(n_cfg):
        r = rng.fork(i)
        m = r.rint(2, 4)
        c = rand_circ(r, m, r.chance(1, 2))
        inp = gen.rand_state(r, m, r.rint(1, 3))
        reqs.append((900, [m, c.U, [[Fraction(1), [inp]]], [], [0], 0, 1, []]))
        pend.append((c, inp, r.chance(1, 2)))
    outs = ctx.model.run(reqs)
    for i, ((c, inp, single), out) in enumerate(zip(pend, outs)):
        _, _, dist = un_pipe(out[1])
        be = pcvl.Clifford2017Backend()
        be.set_circuit(c.build())
        be.set_input_state(BS_(inp))
        pcvl.random_seed(ctx.seed * 7919 + i)
        nn = N // 4 if single else N
        got = [be.sample() for _ in range(nn)] if single else be.samples(nn)
        obs = Counter(tuple(s) for s in got)
        pv, stat, df, imp = chi_square(dist, obs, nn)
        name = "Clifford2017Backend.sample" if single else "Clifford2017Backend.samples"
        case = {"circuit": c.describe(), "input": inp, "call": name, "N": nn, "p": pv, "chi2": stat, "df": df}
        ctx.case(["prim", case["circuit"], inp, single], df >= 1, case)
        ctx.count("gof." + name)
        if len(got) != nn or imp or pv < LEVEL_P:
            ctx.fail("gof-backend-" + ("sample" if single else "samples"), f"{name} does not follow |<t|U|s>|^2 (p={pv:.3g}, impossible={imp[:1]})",
                     {**case, "expected": sorted(dist.items()), "observed": sorted(obs.items())})
        # BSDistribution.sample on the same exact table
        bsd = pcvl.BSDistribution({BS_(list(k)): v for k, v in dist.items() if v > 0})
        nonnull = {k: v for k, v in dist.items() if sum(k) > 0 and v > 0}
        z = sum(nonnull.values())
        s2 = bsd.sample(N)
        obs2 = Counter(tuple(s) for s in s2)
        pv2, stat2, df2, imp2 = chi_square({k: v / z for k, v in nonnull.items()}, obs2, N)
        ctx.case(["bsd", sorted(dist.items())], df2 >= 1, {"call": "BSDistribution.sample", "N": N, "p": pv2})
        ctx.count("gof.BSDistribution.sample")
        if len(s2) != N or imp2 or pv2 < LEVEL_P:
            ctx.fail("gof-BSDistribution-sample", f"BSDistribution.sample does not follow its table (p={pv2:.3g})",
                     {"table": sorted(dist.items()), "observed": sorted(obs2.items())})
    return len(pend) * 2


# ------------------------------------------------------------------ stream: seed
def stream_seed(ctx):
    import perceval as pcvl
    import numpy as np
    from perceval.components import Source, Detector
    from perceval.simulators._simulate_detectors import simulate_detectors_sample
    from perceval.utils import probs_to_sample_count
    rng = ctx.rng.fork("seed")
    BS_ = pcvl.BasicState
    n = ctx.n(6, 60)
    for i in range(n):
        r = rng.fork(i)
        seed = r.rint(0, 2 ** 31 - 1)
        m = r.rint(2, 4)
        c = rand_circ(r, m, True)
        inp = gen.rand_state(r, m, r.rint(1, 3))
        noise = dict(emission_probability=r.choice([1.0, 0.8]), multiphoton_component=r.choice([0.0, 0.04]),
                     indistinguishability=r.choice([1.0, 0.9]), losses=r.choice([0.0, 0.3]),
                     multiphoton_model=r.choice(["distinguishable", "indistinguishable"]))
        if all(v in (1.0, 0.0) for v in noise.values() if not isinstance(v, str)) and noise["emission_probability"] == 1.0 and noise["indistinguishability"] == 1.0:
            noise["losses"] = 0.3
        flt = r.rint(0, 1)
        dets = [Detector.ppnr(r.rint(2, 3)) for _ in range(m)]
        table = {BS_(gen.rand_state(r, m, r.rint(0, 3))): r.rint(1, 9) for _ in range(5)}
        cnt = r.choice([1, 7, 100, 1000])

        def choices():
            out = {}
            pcvl.random_seed(seed)
            src = Source(**noise)
            out["Source.generate_samples"] = [str(s) for s in src.generate_samples(40, BS_(inp), flt)]
            pcvl.random_seed(seed)
            out["simulate_detectors_sample"] = [str(simulate_detectors_sample(BS_([2, 3, 1, 2][:m]), dets)) for _ in range(40)]
            pcvl.random_seed(seed)
            out["BSDistribution.sample"] = [str(s) for s in pcvl.BSDistribution(dict(table)).sample(60, non_null=False)]
            pcvl.random_seed(seed)
            out["Matrix.random_unitary"] = np.asarray(pcvl.Matrix.random_unitary(m)).tobytes().hex()
            pcvl.random_seed(seed)
            be = pcvl.Clifford2017Backend()
            be.set_circuit(c.build())
            be.set_input_state(BS_(inp))
            out["Clifford2017Backend.sample"] = [str(be.sample()) for _ in range(40)]
            pcvl.random_seed(seed)
            d = pcvl.BSDistribution(dict(table))
            d.normalize()
            out["probs_to_sample_count"] = sorted((str(k), v) for k, v in probs_to_sample_count(d, cnt).items())
            return out

        a, b = choices(), choices()
        case = {"seed": seed, "circuit": c.describe(), "input": inp, "source": noise, "filter": flt, "count": cnt}
        ctx.case(["seed", case], True, None)
        for k in a:
            ctx.count("seed." + k)
            if a[k] != b[k]:
                ctx.fail("seed-" + k, f"two runs after random_seed({seed}) differ in {k}", case, str(a[k])[:300], str(b[k])[:300])
    ctx.streams["seed"] = n


SIZES = [1, 2, 9, 10, 11, 99, 100, 101, 999, 1000, 1001, 4095, 4096, 4097, 9999, 10000, 10001, 65535, 65536, 65537,
         99999, 100000, 100001]


def stream_seed_sizes(ctx):
    """Repeatability across internal size thresholds: every seeded entry point that takes a number of draws is run twice
    after the same random_seed for draw counts just below / at / above powers of ten and of two up to 1e5, plus a few
    log-uniform ones; the two runs must agree exactly (compared through a digest), and another seed must give another
    draw (non-vacuity, for counts >= 64)."""
    import hashlib
    import perceval as pcvl
    from perceval.components import Source, Detector
    from perceval.simulators._simulate_detectors import simulate_detectors_sample
    from perceval.utils import probs_to_sample_count, probs_to_samples, sample_count_to_samples
    rng = ctx.rng.fork("seed-sizes")
    BS_ = pcvl.BasicState

    def digest(states):
        return hashlib.sha256("".join(str(x) for x in states).encode()).hexdigest()[:20]

    table = {BS_([1, 0, 1]): 0.3, BS_([0, 2, 0]): 0.25, BS_([0, 0, 0]): 0.15, BS_([1, 1, 0]): 0.2, BS_([0, 0, 1]): 0.1}
    counts = pcvl.BSCount({BS_([1, 0]): 7, BS_([0, 1]): 3, BS_([1, 1]): 11})
    dets = [Detector.ppnr(3), Detector.threshold(), Detector.ppnr(2)]
    be = pcvl.Clifford2017Backend()
    be.set_circuit(pcvl.BS() // pcvl.PS(0.3) // pcvl.BS.Ry(0.7))
    be.set_input_state(BS_([1, 1]))
    noisy = dict(emission_probability=0.8, multiphoton_component=0.03, indistinguishability=0.9, losses=0.2)

    entries = {
        "BSDistribution.sample": (10 ** 6, lambda k: digest(pcvl.BSDistribution(dict(table)).sample(k, non_null=False))),
        "BSDistribution.sample(non_null)": (10 ** 6, lambda k: digest(pcvl.BSDistribution(dict(table)).sample(k))),
        "probs_to_samples": (10 ** 6, lambda k: digest(probs_to_samples(pcvl.BSDistribution(dict(table)), k))),
        "sample_count_to_samples": (10 ** 6, lambda k: digest(sample_count_to_samples(counts, k))),
        "probs_to_sample_count": (10 ** 6, lambda k: str(sorted((str(a), b) for a, b in probs_to_sample_count(pcvl.BSDistribution(dict(table)), k).items()))),
        "Source.generate_samples": (10 ** 6, lambda k: digest(Source(**noisy).generate_samples(k, BS_([1, 0, 1]), 0))),
        "Source.generate_samples(filter)": (10 ** 6, lambda k: digest(Source(**noisy).generate_samples(k, BS_([1, 1, 1]), 1))),
        "Clifford2017Backend.sample": (20000 if ctx.quick() else 10 ** 6, lambda k: digest([be.sample() for _ in range(k)])),
        "simulate_detectors_sample": (4100 if ctx.quick() else 10 ** 6, lambda k: digest([simulate_detectors_sample(BS_([3, 2, 2]), dets) for _ in range(k)])),
    }
    heavy = {"Source.generate_samples", "Source.generate_samples(filter)", "Clifford2017Backend.sample", "simulate_detectors_sample"}
    n_cmp = 0
    for name, (cap, fn) in entries.items():
        r = rng.fork(name)
        sizes = [k for k in SIZES if k <= cap]
        if name in heavy and ctx.quick():
            sizes = [k for k in sizes if k in (1, 11, 1000, 1001, 4097, 10000, 10001, 65537)]
        extra = ctx.n(2, 12)
        sizes += [min(int(round(10 ** (r.rint(0, 4300 if name in heavy and ctx.quick() else 5000) / 1000))), cap)
                  for _ in range(extra)]      # log-uniform on [1, 1e5]
        for k in sizes:
            seed = r.rint(0, 2 ** 31 - 1)
            case = {"entry point": name, "draws": k, "seed": seed}
            try:
                pcvl.random_seed(seed)
                a = fn(k)
                pcvl.random_seed(seed)
                b = fn(k)
                c = None
                if 64 <= k <= (10001 if name in heavy else 10 ** 6) and name != "probs_to_sample_count":      # (a count table may coincide by chance)
                    pcvl.random_seed(seed + 1)
                    c = fn(k)
            except Exception as e:
                ctx.fail(f"seed-sizes-exception-{type(e).__name__}", f"{name} raised {type(e).__name__}: {e}", case)
                continue
            n_cmp += 1
            ctx.case(["seed-sizes", name, k], k > 1, once("seed-sizes", k > 10000, case))
            ctx.count("seed-sizes." + name)
            if a != b:
                # shrink: the smallest listed count at which the two runs differ
                small = k
                for kk in sorted(x for x in SIZES if x < k):
                    pcvl.random_seed(seed)
                    a2 = fn(kk)
                    pcvl.random_seed(seed)
                    if a2 != fn(kk):
                        small = kk
                        break
                ctx.fail("seed-sizes-" + name, f"two runs after random_seed({seed}) differ for {k} draws of {name} "
                         f"(smallest listed count that differs: {small})", {**case, "smallest differing count": small}, a, b)
            elif c is not None and c == a:
                ctx.fail("seed-sizes-vacuous-" + name, f"random_seed({seed}) and random_seed({seed + 1}) give the same {k} draws", case)
    ctx.streams["seed-sizes"] = n_cmp


# ------------------------------------------------------------------ stream: counts and conversions
def stream_counts(ctx):
    import random as pyrandom
    import numpy as np
    import perceval as pcvl
    from perceval.utils import conversion as conv
    from perceval.utils import (probs_to_sample_count, samples_to_sample_count, samples_to_probs, sample_count_to_probs,
                                sample_count_to_samples, probs_to_samples)
    rng = ctx.rng.fork("counts")
    BS_ = pcvl.BasicState
    n = ctx.n(250, 4000)
    reqs, pend = [], []
    for i in range(n):
        r = rng.fork(i)
        m = r.rint(1, 4)
        keys = []
        for _ in range(r.choice([1, 2, 3, 5, 8, 8, 16, 24])):
            s = tuple(gen.rand_state(r, m, r.rint(0, 3)))
            if s not in keys and (sum(s) > 0 or r.chance(1, 3)):
                keys.append(s)
        if not any(sum(k) > 0 for k in keys):
            keys.append(tuple([1] + [0] * (m - 1)))
        kind = r.below(6)
        if kind == 5:
            w = [1] * len(keys)
        elif kind == 0:
            w = [r.rint(1, 10) for _ in keys]
        elif kind == 1:
            w = [r.choice([1e-12, 1e-9, 1e-6, 1.0]) for _ in keys]
        elif kind == 2:
            w = [1] * len(keys)
        elif kind == 3:
            w = [r.rint(0, 3) for _ in keys]
            if sum(w) == 0:
                w[0] = 1
        else:
            w = [r.rint(1, 1000) / 1000 for _ in keys]
        tot = sum(w)
        probs = [x / tot for x in w]
        count = r.choice([0, 1, 1, 2, 3, 7, 10, 100, 1000, 12345, r.rint(1, 50)])
        if kind == 5:        # many cells with about 1.5 expected counts each: large rounding excess either way
            count = len(keys) + len(keys) // 2 + r.rint(0, 2)
        bsd = pcvl.BSDistribution({BS_(list(k)): p for k, p in zip(keys, probs)})
        normals, picks = [], []
        orig_normal, orig_choice = np.random.normal, pyrandom.choice

        def spy_normal(*a, **kw):
            v = orig_normal(*a, **kw)
            normals.append(float(v))
            return v

        def spy_choice(seq):
            v = orig_choice(seq)
            picks.append((list(v), len(seq)))
            return v

        pcvl.random_seed(r.rint(0, 2 ** 31 - 1))
        np.random.normal, pyrandom.choice = spy_normal, spy_choice
        try:
            res = probs_to_sample_count(bsd, count)
        except Exception as e:
            ctx.fail(f"counts-exception-{type(e).__name__}", f"probs_to_sample_count raised {type(e).__name__}: {e}",
                     {"keys": keys, "probs": probs, "count": count})
            continue
        finally:
            np.random.normal, pyrandom.choice = orig_normal, orig_choice
        got = {tuple(k): v for k, v in res.items()}
        case = {"states": [list(k) for k in keys], "probs": probs, "count": count, "normal_draws": normals, "choices": picks}
        total = sum(got.values())
        ctx.count("counts.kind.%d" % kind)
        if count < 1:
            ctx.case(["p2sc", case], False, None)
            if got:
                ctx.fail("counts-nonempty-for-count-0", "count < 1 must give an empty table", case, {}, got)
            continue
        if total != count or any(v < 0 for v in got.values()):
            ctx.fail("counts-total", "probs_to_sample_count table does not sum to the request (or holds a negative count)",
                     case, count, sorted(got.items()))
        # replay the float part exactly as the code does, hand the rounding and the repair to the model
        plist = list(bsd.items())
        if len(normals) != len(plist):
            ctx.fail("counts-spy", "unexpected number of normal draws", case, len(plist), len(normals))
            continue
        pert = [max(p + z, 0) for (_, p), z in zip(plist, normals)]
        psum = sum(pert)
        fallback = psum == 0
        if not fallback:
            fac = 1 / psum
            pert = [fac * p for p in pert]
            fallback = max(pert) * count < 1
        if fallback:
            ctx.count("counts.fallback")
            ctx.case(["p2sc", case], True, None)
            continue
        xs = [frac_of_float(p * count) for p in pert]
        # BSCount.add(state, 0) does not create a key: the repair chooses among the keys present
        reqs.append((904, xs))
        pend.append(("round", case, plist, got, picks, xs))
    outs = ctx.model.run(reqs)
    reqs2, pend2 = [], []
    for (_, case, plist, got, picks, xs), out in zip(pend, outs):
        rounded = out
        present = [j for j, v in enumerate(rounded) if v != 0]
        # the repair chooses among the keys present in the table (native BSCount order): the oracle is the index of the
        # chosen state in the order of the distribution
        if any(ln != len(present) for _, ln in picks):
            ctx.fail("counts-keys", "random.choice was offered a key list of unexpected length", case, len(present), picks)
            continue
        order = [list(k) for k, _ in plist]
        oracle = [order.index(st) for st, _ in picks]
        reqs2.append((903, [xs, case["count"], oracle]))
        pend2.append((case, plist, got, rounded))
    outs2 = ctx.model.run(reqs2)
    for (case, plist, got, rounded), out in zip(pend2, outs2):
        repaired = sum(rounded) != case["count"]
        ctx.case(["p2sc", case], repaired, None)
        ctx.count("counts.repaired" if repaired else "counts.exact")
        ctx.count("counts.repair-diff.%+d" % max(-3, min(3, case["count"] - sum(rounded))))
        if not out:
            ctx.fail("counts-model-no-exit", "the model's repair did not exit with the recorded choices", case, None, sorted(got.items()))
            continue
        exp = {tuple(k): v for (k, _), v in zip(plist, out[0]) if v != 0}
        got_nz = {k: v for k, v in got.items() if v != 0}
        if exp != got_nz:
            ctx.fail("counts-table", "table differs from the rounding + repair model", case, sorted(exp.items()), sorted(got_nz.items()))
    ctx.streams["counts"] = n

    # ---- conversions
    nconv = ctx.n(150, 2000)
    reqs, pend = [], []
    for i in range(nconv):
        r = rng.fork(("conv", i))
        m = r.rint(1, 3)
        pool = [gen.rand_state(r, m, r.rint(0, 3)) for _ in range(r.rint(1, 5))]
        samples = [r.choice(pool) for _ in range(r.rint(1, 40))]
        reqs.append((906, samples))
        pend.append(samples)
    outs = ctx.model.run(reqs)
    for samples, out in zip(pend, outs):
        bs = pcvl.BSSamples([BS_(s) for s in samples])
        sc = samples_to_sample_count(bs)
        sp = samples_to_probs(bs)
        mc = {tuple(e[0]): e[1] for e in out[0]}
        mp = {tuple(e[0]): float(un_q(e[1])) for e in out[1]}
        case = {"samples": samples}
        ctx.case(["conv", samples], len(mc) > 1, None)
        gc = {tuple(k): v for k, v in sc.items()}
        gp = {tuple(k): float(v) for k, v in sp.items()}
        if gc != mc or sum(gc.values()) != len(samples):
            ctx.fail("conv-samples_to_sample_count", "count table differs / total not preserved", case, sorted(mc.items()), sorted(gc.items()))
        if set(gp) != set(mp) or any(abs(gp[k] - mp[k]) > 1e-12 for k in mp) or abs(sum(gp.values()) - 1) > 1e-12:
            ctx.fail("conv-samples_to_probs", "frequencies differ / total probability not 1", case, sorted(mp.items()), sorted(gp.items()))
        back = sample_count_to_probs(sc)
        if any(abs(float(back[k]) * len(samples) - sc[k]) > 1e-9 for k in sc):
            ctx.fail("conv-sample_count_to_probs", "probabilities times total do not give the counts back", case)
        k = len(samples)
        if all(sum(x) == 0 for x in samples):
            # BSDistribution.sample excludes vacuum states by default (documented `non_null`): nothing to draw from
            ctx.count("conv.vacuum-only")
            continue
        if len(sample_count_to_samples(sc)) != k or len(sample_count_to_samples(sc, 7)) != 7 or len(probs_to_samples(sp, 9)) != 9:
            ctx.fail("conv-sample-lengths", "sample_count_to_samples / probs_to_samples do not return the requested number", case)
        pc = probs_to_sample_count(sp, k)
        if sum(pc.values()) != k:
            ctx.fail("counts-total", "samples -> probs -> counts does not sum to the number of samples", case, k, sum(pc.values()))
    ctx.streams["conversions"] = nconv
    return reqs[:1]


# ------------------------------------------------------------------ stream: point inputs (deterministic outcomes)
def stream_point_inputs(ctx):
    """A one-member SVDistribution (any Fock state, the vacuum included) through a mode permutation, one satisfied herald
    (so the loop path is taken, not the fast path), filter <= n: every shot is accepted and every sample is the permuted
    input without the heralded mode; performances 1 and 1. Also two-member mixtures whose members map to distinct
    outputs: the set of returned states is included in the two images, and a member of weight >= 1/2 must show up in
    64 samples (probability of a false alarm 2^-64)."""
    import perceval as pcvl
    rng = ctx.rng.fork("point")
    BS_ = pcvl.BasicState
    n = ctx.n(40, 400)
    for i in range(n):
        r = rng.fork(i)
        m = r.rint(2, 4)
        perm = r.shuffle(range(m))
        members = []
        for _ in range(r.choice([1, 1, 2])):
            st = [0] * m
            for _ in range(r.choice([0, 0, 1, 2, 3])):
                st[r.below(m)] += 1
            if st not in members:
                members.append(st)
        if len(members) == 2 and not r.chance(1, 2):
            members[1] = [0] * m if members[0] != [0] * m else members[1]
        if len(members) == 2 and members[0] == members[1]:
            members = members[:1]
        images = []
        for st in members:
            out = [0] * m
            for j, k in enumerate(st):
                out[perm[j]] += k
            images.append(out)
        ok_modes = [j for j in range(m) if images[0][j] <= 1]       # add_herald accepts 0 or 1 only
        if not ok_modes:
            ctx.count("point.skipped-no-herald-mode")
            continue
        hm = r.choice(ok_modes)
        usable = [k for k, im in enumerate(images) if im[hm] == images[0][hm]]      # members satisfying the herald
        hv = images[0][hm]
        flt = r.rint(0, max(min(sum(images[k]) for k in usable) - hv, 0))
        N = 64
        case = {"circuit": f"Circuit({m}) // PERM({perm})", "input(SVDistribution)": [[st, 1] for st in members],
                "herald": {str(hm): hv}, "filter": flt, "call": f"samples({N})"}
        try:
            p = pcvl.Processor("CliffordClifford2017", pcvl.Circuit(m) // pcvl.PERM(perm))
            p.add_herald(hm, hv)
            p.min_detected_photons_filter(flt)
            p.with_input(pcvl.SVDistribution({pcvl.StateVector(BS_(st)): 1 / len(members) for st in members}))
            wd = Watchdog(100 * N)
            res = p.samples(N, None, wd)
        except Exception as e:
            ctx.case(["point", case], True, None)
            ctx.fail(f"samples-point-input-{type(e).__name__}", f"samples raised {type(e).__name__}: {e}", case)
            continue
        got = Counter(tuple(x) for x in res["results"])
        allowed = {tuple(v for j, v in enumerate(images[k]) if j != hm) for k in usable}
        vac = any(sum(st) == 0 for st in members)
        ctx.case(["point", case], True, once("point", vac, {**case, "returned": sorted((list(k), v) for k, v in got.items())}))
        ctx.count("point.members.%d" % len(members))
        ctx.count("point.vacuum-member" if vac else "point.no-vacuum")
        case = {**case, "returned": sorted((list(k), v) for k, v in got.items())}
        if wd.tripped:
            ctx.fail("samples-point-input-member-never-drawn" + ("-vacuum" if vac else ""),
                     f"{wd.calls} iterations gave {sum(got.values())} of {N} samples although a member of weight >= 1/2 is always accepted",
                     case, N, sum(got.values()))
        elif sum(got.values()) != N:
            ctx.fail("samples-point-input-count", f"{sum(got.values())} samples instead of {N} although every shot is accepted", case, N, sum(got.values()))
        elif not set(got) <= allowed:
            ctx.fail("samples-point-input-outcome", "a sample is not the permuted input", case, sorted(allowed), sorted(got))
        elif set(got) != allowed:
            missing = sorted(allowed - set(got))
            ctx.fail("samples-point-input-member-never-drawn" + ("-vacuum" if any(sum(k) == 0 for k in missing) and vac else ""),
                     f"a member of weight 1/2 never appears in {N} samples: {missing}", case, sorted(allowed), sorted(got))
        elif len(usable) == len(members) and (abs(res["physical_perf"] - 1) > 1e-12 or abs(res["logical_perf"] - 1) > 1e-12):
            ctx.fail("samples-point-input-perf", "performances differ from 1 although every shot is accepted", case, [1, 1],
                     [res["physical_perf"], res["logical_perf"]])
    ctx.streams["point-inputs"] = n


# ------------------------------------------------------------------ stream: grid over the source fields
def stream_source_grid(ctx):
    """Goodness-of-fit on the cross-product of the source fields that reach the sampler — multi-photon model (both),
    g2 in {0.3, 0.4}, indistinguishability in {0.5, 0.3}, transmittance, brightness, filter 0 / 1 / n — on small interfering
    circuits (two photons meeting on a genuine beam splitter, m = 2..3, optionally one of them a heralded photon), strong
    values so that a mis-tagged or mis-weighted emission moves a cell by many standard deviations at N = 30000.
    quick: a stratified draw of the grid (always both multi-photon models with partial distinguishability and a filter
    >= 1); thorough: the whole grid."""
    rng = ctx.rng.fork("source-grid")
    grid = [dict(brightness=b, g2=g2, g2_distinguishable=gd, indistinguishability=ind, transmittance=tr,
                 phase_imprecision=0.0, phase_error=0.0)
            for gd in (False, True) for g2 in (0.3, 0.4) for ind in (0.5, 0.3) for tr in (1.0, 0.8) for b in (1.0, 0.9)]
    combos = [(nz, f) for nz in grid for f in ("0", "1", "n")]
    if ctx.quick():
        r = rng.fork("pick")
        pick = lambda gd, fs: r.choice([c for c in combos if c[0]["g2_distinguishable"] == gd and c[1] in fs])
        combos = [pick(False, "1n"), pick(False, "n"), pick(False, "1"), pick(True, "1n"), pick(False, "0"), pick(True, "0n")]
    cases = []
    for i, (nz, f) in enumerate(combos):
        r = rng.fork(i)
        for _ in range(50):
            m = r.rint(2, 3)
            c = rand_circ(r.fork(("c", _)), m, True)
            if any(0.2 <= abs(complex(x)) ** 2 <= 0.8 for row in c.U for x in row):
                break
        heralded = r.chance(1, 3)
        a, b = r.shuffle(range(m))[:2]
        heralds = {a: 1} if heralded else {}
        free = [j for j in range(m) if j not in heralds]
        inp = [0] * len(free)
        inp[free.index(b)] += 1
        if not heralded:
            inp[free.index(a)] += 1
        n_free = sum(inp)
        flt = {"0": 0, "1": 1 if not heralded else 0, "n": n_free}[f]       # with a heralded photon the sampler's filter is flt + 1 >= 1
        cases.append(dict(circ=c, m=m, heralds=heralds, free=free, inp=inp, flt=flt, ps_tree=[0], ps_str=None, noise=dict(nz),
                          dets=[None] * m, det_kind="none", svd=None))
    reqs, mixes = [], []
    for cs in cases:
        mix = mixture_of_svd(build_proc(cs).source_distribution)       # from a FRESH processor, never from the sampled object
        mixes.append(mix)
        reqs.append(model_req(cs, mix, cs["flt"] + sum(cs["heralds"].values())))
    outs = exact_tables(ctx, reqs)
    done = 0
    for tag, (cs, mix, out) in enumerate(zip(cases, mixes, outs)):
        if out is None:
            ctx.count("model.table-over-budget")
            continue
        F = cs["flt"] + sum(cs["heralds"].values())
        o_spec = list(out) + [[[Fraction(pq[0]), 0] for pq in mix if sum(sum(g) for g in pq[1]) >= F]]
        if un_pipe(o_spec[1])[0] * un_pipe(o_spec[1])[1] < 0.05:
            ctx.count("source-grid.skipped-acceptance-below-0.05")
            continue
        ctx.count("source-grid." + ("distinguishable" if cs["noise"]["g2_distinguishable"] else "indistinguishable")
                  + (".filter>=1" if F >= 1 else ".filter0"))
        gof_processor(ctx, cs, o_spec, None, 30000, 5000 + tag)
        done += 1
    ctx.streams["source-grid"] = done


# ------------------------------------------------------------------ stream: one long-lived processor through a history
def apply_op(p, cs, op):
    """apply one reconfiguration to the live processor and to the configuration record (returns the new record)"""
    import perceval as pcvl
    from perceval.utils import PostSelect, NoiseModel
    cs = dict(cs)
    kind = op[0]
    if kind == "filter":
        cs["flt"] = op[1]
        p.min_detected_photons_filter(op[1])
    elif kind == "input":
        cs["inp"] = op[1]
        p.with_input(pcvl.BasicState(op[1]))
    elif kind == "noise":
        cs["noise"] = op[1]
        p.noise = NoiseModel(**op[1]) if op[1] else NoiseModel()
    elif kind == "postselect":
        cs["ps_tree"], cs["ps_str"] = op[1], op[2]
        if op[2]:
            p.set_postselection(PostSelect(show_ps(remap_ps(op[1], cs["free"]))))
        else:
            p.clear_postselection()
    return cs


def show_op(op, cs):
    if op[0] == "postselect":
        return ["postselect", show_ps(remap_ps(op[1], cs["free"])) if op[2] else None]
    return list(op)


def rand_op(r, cs):
    k = r.below(8)
    n = sum(cs["inp"])
    if k < 4:       # the filter, up and down and to 0 (lowering is the interesting direction for stale caches)
        cand = [v for v in range(0, n + 1) if v != cs["flt"]]
        lower = [v for v in cand if v < cs["flt"]]
        return ("filter", r.choice(lower) if lower and r.chance(2, 3) else r.choice(cand)) if cand else rand_op(r, cs)
    if k < 6:
        inp = [0] * len(cs["free"])
        room = 2 - sum(cs["heralds"].values()) if (cs["noise"] or {}).get("g2", 0) > 0 else 3
        for _ in range(r.rint(1, max(room, 1))):
            inp[r.below(len(inp))] += 1
        if sum(inp) + sum(cs["heralds"].values()) > 3:
            inp = [min(x, 1) for x in inp]
        return ("input", inp) if inp != cs["inp"] else rand_op(r, cs)
    if k == 6:
        noise = rand_noise(r, n + sum(cs["heralds"].values()))
        if noise:
            noise["phase_error"] = 0.0       # (a random matrix per batch: only in the gof stream, where it is read back)
            if noise == PERFECT:
                noise = None
        return ("noise", noise) if noise != cs["noise"] else rand_op(r, cs)
    if cs["ps_str"] and r.chance(1, 2):
        return ("postselect", [0], None)
    t, st = rand_ps(r, len(cs["free"]))
    return ("postselect", t, st)


def history_expected(cs):
    """mixture and model request of a configuration, read from a FRESH processor (independent of any history)"""
    mix = mixture_of_svd(build_proc(cs).source_distribution)
    F = cs["flt"] + sum(cs["heralds"].values())
    return mix, F, model_req(cs, mix, F)


def stream_history(ctx):
    """One Processor object lives through a history: sample, reconfigure (filter up / down / to 0, input, noise,
    post-selection), sample again, ...  Every batch is judged against the exact table of the configuration in force when
    it is drawn, computed from a fresh processor."""
    import perceval as pcvl
    rng = ctx.rng.fork("history")
    n_hist = ctx.n(8, 80)
    N = 5000 if ctx.quick() else 20000
    plans = []
    for i in range(n_hist):
        r = rng.fork(i)
        cs = rand_case(r.fork("case"), mmax=3, allow_dets=r.chance(1, 3))
        tries = 0
        while (cs.get("svd") or not cs["noise"]) and tries < 30:          # an imperfect source: the stateful part of sampling
            tries += 1
            cs = rand_case(r.fork(("case", tries)), mmax=3, allow_dets=r.chance(1, 3))
        if cs.get("svd") or not cs["noise"]:
            continue
        cs["noise"]["phase_error"] = 0.0
        if cs["noise"] == PERFECT:
            cs["noise"]["transmittance"] = 0.8
        if r.chance(1, 2):
            cs["flt"] = sum(cs["inp"])       # start high: the next filter move is down
        cfgs, ops, cur = [cs], [], cs
        for _ in range(r.rint(2, 4)):
            op = rand_op(r, cur)
            nxt = dict(cur)
            if op[0] == "filter":
                nxt["flt"] = op[1]
            elif op[0] == "input":
                nxt["inp"] = op[1]
                nxt["flt"] = min(nxt["flt"], sum(op[1]))
            elif op[0] == "noise":
                nxt["noise"] = op[1]
            else:
                nxt["ps_tree"], nxt["ps_str"] = op[1], op[2]
            ops.append(op)
            cfgs.append(nxt)
            cur = nxt
        plans.append((cfgs, ops))
    # exact tables of every configuration met
    reqs, meta = [], []
    for hi, (cfgs, ops) in enumerate(plans):
        for j, cfg in enumerate(cfgs):
            try:
                mix, F, rq = history_expected(cfg)
            except Exception as e:
                ctx.fail(f"build-exception-{type(e).__name__}", f"building the processor raised {type(e).__name__}: {e}", describe(cfg))
                mix, F, rq = None, None, None
            meta.append((hi, j, mix, F))
            reqs.append(rq)
    outs = exact_tables(ctx, [rq for rq in reqs if rq is not None])
    it = iter(outs)
    tables = {}
    for (hi, j, mix, F), rq in zip(meta, reqs):
        tables[(hi, j)] = (next(it) if rq is not None else None, mix, F)

    def usable(hi, j):
        t, mix, F = tables[(hi, j)]
        if t is None:
            return False
        ph, lg, _ = un_pipe(t[1])
        return ph * lg >= 0.05

    def sample_live(p, hi, j, seed):
        t, mix, F = tables[(hi, j)]
        ph, lg, _ = un_pipe(t[1])
        wd = Watchdog(int(4 * N / (ph * lg)) + 100000)
        pcvl.random_seed(seed)
        res = p.samples(N, None, wd)
        bad, st = judge_batch(res, wd, t, mix, F, N)
        if bad is None:
            for smp in res["results"]:
                why = legal_sample(plans[hi][0][j], smp)
                if why:
                    bad = ("illegal-sample", "illegal sample returned: " + why + f" {list(smp)}")
                    break
        return bad, st

    n_batches = 0
    for hi, (cfgs, ops) in enumerate(plans):
        seed0 = ctx.seed * 7000003 + hi * 101
        trail = []
        try:
            p = build_proc(cfgs[0])
            cur = cfgs[0]
            failed = None
            for j in range(len(cfgs)):
                if j > 0:
                    cur = apply_op(p, cur, ops[j - 1])
                    trail.append(show_op(ops[j - 1], cur))
                    if cur["flt"] != cfgs[j]["flt"]:       # an input poorer than the filter: lower the filter explicitly
                        cur = apply_op(p, cur, ("filter", cfgs[j]["flt"]))
                        trail.append(["filter", cfgs[j]["flt"]])
                if not usable(hi, j):
                    ctx.count("history.batch-skipped(acceptance<0.05 or table over budget)")
                    continue
                bad, st = sample_live(p, hi, j, seed0 + j)
                trail.append(["samples", N])
                n_batches += 1
                ctx.count("history.batch")
                if j > 0:
                    ctx.count("history.after." + ops[j - 1][0] + ("-lowered" if ops[j - 1][0] == "filter" and cfgs[j]["flt"] < cfgs[j - 1]["flt"] else ""))
                if bad:
                    failed = (j, bad, st)
                    break
        except Exception as e:
            ctx.case(["history", hi], True, None)
            ctx.fail(f"history-exception-{type(e).__name__}", f"raised {type(e).__name__}: {e}",
                     {"start": describe(cfgs[0]), "operations": trail})
            continue
        case = {"start": describe(cfgs[0]), "operations": list(trail)}
        ctx.case(["history", describe(cfgs[0]), [show_op(o, cfgs[0]) for o in ops]], True,
                 once("history", failed is None and len(trail) >= 4, {"stream": "history", **case}))
        if failed is None:
            continue
        j, (suffix, what), st = failed
        # shrink: is a fresh processor at the failing configuration wrong too? else the shortest tail of the history that
        # still fails: fresh processor at configuration i, one batch, operations i+1..j without sampling, one batch
        try:
            b0, st0 = sample_live(build_proc(cfgs[j]), hi, j, seed0 + 50)
        except Exception as e:
            b0, st0 = ("exception", str(e)), {}
        if b0:
            ctx.fail("gof-" + b0[0], "a FRESH processor at this configuration fails as well: " + b0[1],
                     {"configuration": describe(cfgs[j]), **{k: st0.get(k) for k in ("N", "chi2", "df", "p", "expected", "observed")}},
                     st0.get("performances(model)"), st0.get("performances(samples)"))
            continue
        shrunk = None
        for i in range(j - 1, -1, -1):
            if not usable(hi, i):
                continue
            try:
                q = build_proc(cfgs[i])
                cur = cfgs[i]
                sample_live(q, hi, i, seed0 + 60 + i)
                tr = [["samples", N]]
                for k in range(i + 1, j + 1):
                    cur = apply_op(q, cur, ops[k - 1])
                    tr.append(show_op(ops[k - 1], cur))
                    if cur["flt"] != cfgs[k]["flt"]:
                        cur = apply_op(q, cur, ("filter", cfgs[k]["flt"]))
                        tr.append(["filter", cfgs[k]["flt"]])
                b1, st1 = sample_live(q, hi, j, seed0 + 80 + i)
                tr.append(["samples", N])
            except Exception as e:
                b1, st1 = ("exception", str(e)), {}
            if b1:
                shrunk = (i, tr, b1, st1)
                break
        if shrunk:
            i, tr, (suffix, what), st = shrunk
            case = {"start": describe(cfgs[i]), "operations": tr}
        last_cfg_op = next((o[0] for o in reversed(case["operations"][:-1]) if o[0] != "samples"), "none")
        ctx.fail(f"history-{suffix}-after-{last_cfg_op}",
                 "a batch drawn from a long-lived processor does not follow the configuration in force (a fresh processor at the same "
                 "configuration does): " + what,
                 {**case, "configuration at the failing batch": describe(cfgs[j]),
                  **{k: st.get(k) for k in ("N", "chi2", "df", "p", "expected", "observed")}},
                 st.get("performances(model)"), st.get("performances(samples)"))
    ctx.streams["history"] = n_batches


# ------------------------------------------------------------------ witnesses of the design round
def witness_checks(ctx):
    """Regression guards: the witnesses of the three defects repaired in /repo (5caa1a68, 96b1fd83, 869f2c44) —
    DESIGN.md section 9 rows 8 and 14 and the float re-scaling of max_shots. They must pass; a failure here is a VIOLATION."""
    import perceval as pcvl
    from perceval.components import catalog, Detector
    BS_ = pcvl.BasicState
    # row 14: detector list mixing None and real detectors
    case = {"processor": "Processor('CliffordClifford2017', 2).add(0, BS()).add(0, Detector.threshold())", "input": [1, 1], "call": "samples(5)"}
    try:
        p = pcvl.Processor("CliffordClifford2017", 2)
        p.add(0, pcvl.BS())
        p.add(0, Detector.threshold())
        p.with_input(BS_([1, 1]))
        res = p.samples(5)
        ok = all(len(s) == 2 and s[0] <= 1 for s in res["results"])
        ctx.case(["witness", "row14"], True, None)
        if not ok:
            ctx.fail("bounds-illegal-sample", "threshold detector on mode 0 not applied", case)
    except AttributeError as e:
        ctx.case(["witness", "row14"], True, None)
        ctx.fail("samples-None-detector-AttributeError", f"samples raised AttributeError: {e}", case)
    # row 8: heralded CNOT, transmittance 0.5, filter 2
    case = {"processor": "Processor('CliffordClifford2017', 4, noise=NoiseModel(transmittance=0.5)).add(0, catalog['heralded cnot'].build_processor())",
            "filter": 2, "input": [1, 0, 1, 0], "call": "samples(400)"}
    p = pcvl.Processor("CliffordClifford2017", 4, noise=pcvl.NoiseModel(transmittance=0.5))
    p.add(0, catalog["heralded cnot"].build_processor())
    p.min_detected_photons_filter(2)
    p.with_input(BS_([1, 0, 1, 0]))
    pcvl.random_seed(11)
    res = p.samples(400)
    low = [list(s) for s in res["results"] if s.n < 2]
    ctx.case(["witness", "row8"], True, None)
    if low or abs(res["physical_perf"] - 0.0625) > 0.03:
        ctx.fail("samples-filter-omits-herald-photons",
                 f"{len(low)} of 400 samples hold fewer than 2 photons (e.g. {low[:2]}); physical_perf {res['physical_perf']:.4f}, strong simulation 0.0625",
                 case, 0.0625, res["physical_perf"])
    # float re-scaling: g2 source, brightness 1, no loss, 3 photons, filter 2
    case = {"processor": "Processor('CliffordClifford2017', Circuit(3)//BS(), noise=NoiseModel(g2=0.24903640369756824, indistinguishability=0.95))",
            "filter": 2, "input": [1, 1, 1], "call": "samples(10, max_shots=1)"}
    p = pcvl.Processor("CliffordClifford2017", pcvl.Circuit(3) // pcvl.BS(),
                       noise=pcvl.NoiseModel(g2=0.24903640369756824, indistinguishability=0.95))
    p.min_detected_photons_filter(2)
    p.with_input(BS_([1, 1, 1]))
    res = p.samples(10, 1)
    ctx.case(["witness", "float-rescaling"], True, None)
    if len(res["results"]) > 1:
        ctx.fail("bounds-max_shots-exceeded-by-float-rescaling",
                 "samples(10, max_shots=1) returned 2 samples: ceil(max_shots * physical_perf / (1 - zpp)) with physical_perf = 1.0000000000000002",
                 case, 1, len(res["results"]))
    ctx.streams["witnesses"] = 3


# ------------------------------------------------------------------ run
def run(ctx):
    import perceval as pcvl
    from perceval.backends import BACKEND_LIST, ASamplingBackend
    rng = ctx.rng
    sampling = sorted(k for k, v in BACKEND_LIST.items() if issubclass(v, ASamplingBackend))
    ctx.notes.append(f"sampling-capable back-ends in BACKEND_LIST: {sampling} (SLOS is not one in this version: "
                     "Processor('SLOS').samples asserts)")
    sample_reqs = []
    sample_reqs += stream_loop(ctx)
    ctx.log("loop stream done")
    sample_reqs += stream_simulator(ctx)
    ctx.log("simulator stream done")
    stream_counts(ctx)
    ctx.log("counts stream done")
    stream_seed(ctx)
    stream_seed_sizes(ctx)
    ctx.log("seed streams done")
    witness_checks(ctx)
    stream_point_inputs(ctx)
    ctx.log("point-input stream done")
    stream_history(ctx)
    ctx.log("history stream done")
    stream_source_grid(ctx)
    ctx.log("source-grid stream done")

    # random processors: the model gives acceptance probabilities (to avoid unbounded loops) and exact tables
    n_b, n_g = ctx.n(5, 40), ctx.n(10, 200)
    cases = [rand_case(rng.fork(("case", i))) for i in range(n_b + n_g)]
    reqs, pend = [], []
    for cs in cases:
        try:
            p = build_proc(cs)
            mix = mixture_of_svd(p.source_distribution)
        except Exception as e:
            ctx.fail(f"build-exception-{type(e).__name__}", f"building the processor raised {type(e).__name__}: {e}", describe(cs))
            continue
        hp = sum(cs["heralds"].values())
        reqs.append(model_req(cs, mix, cs["flt"] + hp))
        if hp:
            reqs.append(model_req(cs, mix, cs["flt"]))      # pre-repair reading of the filter (regression diagnosis)
        pend.append((cs, mix, len(reqs) - (2 if hp else 1), len(reqs) - 1))
    # exact tables, one runner per request and a wall-clock budget each: the cost is dominated by the size of the
    # rationals (generic unitary blocks), which no a-priori estimate predicts well; a configuration over budget is dropped
    outs = exact_tables(ctx, reqs)
    ctx.log(f"model tables done ({len(reqs)} requests, {sum(o is None for o in outs)} over budget)")
    ready = []
    for cs, mix, i_spec, i_old in pend:
        o_spec, o_impl = outs[i_spec], outs[i_old]
        if o_spec is None or o_impl is None:
            ctx.count("model.table-over-budget")
            continue
        F = cs["flt"] + sum(cs["heralds"].values())
        pre = [[Fraction(pq[0]), 0] for pq in mix if sum(sum(g) for g in pq[1]) >= F]
        o_spec = list(o_spec) + [pre]
        # the proved identity on this instance: pipeline == condition (exact rationals)
        for o, lab in ((o_spec, "spec"), (o_impl, "impl")):
            pl, cd = o[0], o[1]
            pre_nonzero = any(sum(sum(g) for g in pq[1]) >= (F if lab == "spec" else cs["flt"]) for pq in mix)
            exact_U = effective_U(cs) is cs["circ"].U      # the theorem's hypothesis (normalised shots) needs an exactly unitary matrix
            if pre_nonzero and exact_U and (pl[0] != cd[0] or pl[1] != cd[1]):
                ctx.fail("model-pipeline-vs-condition", "pipeline and conditioning performances differ on an instance", describe(cs), cd[:2], pl[:2])
        ready.append((cs, o_spec, o_impl))
    def acceptance(o_spec, o_impl):
        """probability that a shot is accepted, under the statement's reading of the filter (with the herald photons, what
        the sampler applies since 5caa1a68) and under the pre-repair one (without): unbounded sampling is only started when
        neither is tiny, so a regression cannot hang the run"""
        a = [un_pipe(o[1])[0] * un_pipe(o[1])[1] for o in (o_spec, o_impl)]
        return min(a)

    # a configuration in which NO input member holds filter + herald photons is outside the domain of the pipeline theorem
    # (pre_phys = 0) and of the sampler (it raises "No state to sample from" / loops): not sampled, counted
    b_cases = []
    for cs, o_spec, o_impl in ready[:n_b]:
        if not o_spec[3]:
            ctx.count("bounds.skipped-no-input-reaches-the-filter")
            continue
        b_cases.append((cs, acceptance(o_spec, o_impl)))
    stream_bounds(ctx, b_cases)
    ctx.log("bounds stream done")
    N = 20000
    done = 0
    for tag, (cs, o_spec, o_impl) in enumerate(ready[n_b:]):
        if acceptance(o_spec, o_impl) < 0.06:
            ctx.count("gof.skipped-acceptance-below-0.06")
            continue
        gof_processor(ctx, cs, o_spec, o_impl, N, tag)
        done += 1
    done += stream_gof_primitives(ctx, N)
    ctx.streams["gof"] = done
    ctx.log("gof stream done")

    sample = sample_reqs[:3] + [rq for rq, o in zip(reqs, outs) if o is not None and model_cost_req(rq) < 200][:1]
    a = ctx.model.run(sample, jobs=1)
    b = ctx.model.vm_crosscheck(sample, "c09")
    ctx.count("vm_compute_crosscheck", len(sample))
    if a != b:
        ctx.fail("extraction-vs-vm_compute", "extracted runner and vm_compute disagree", {"n": len(sample)})


def replay(ctx, case):
    print(json.dumps(case, indent=1, default=str))
