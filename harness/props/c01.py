"""C01 — a circuit's matrix is the ordered product of its parts and is unitary."""
from __future__ import annotations
import json

from ..common import QI, un_mat, mat_close
from .. import gen

LEVEL = "proof"
RULE = ("straight-line construction programs (1-12 statements) over named circuit variables with reuse: Circuit(m), "
        "add (nest / merge), //=, //, @, @=, barrier(), copy(), operands = elementary leaves (BS 3 conventions x 5 "
        "Pythagorean angles, PS, PERM, exact unitary blocks) or other variables at any admissible or inadmissible "
        "offset, m <= 6; after every statement every variable's matrix, unitarity and flattened component listing are "
        "compared with the model. Non-trivial: the program nests a non-empty sub-circuit at offset > 0 or merges a "
        "non-empty one; distinct by (statement kinds, offsets, leaf matrices).")
TRUSTED = ["model: coq/Model/Circuit.v, CircuitX.v (hand-written; tied by this correspondence stream)"]
ASSUMPTIONS = ["a circuit object that has been nested by reference into another one is not mutated afterwards by the "
               "generated programs (Python reference semantics of nesting are outside the statement)",
               "symbolic matrices are not compared here (C14 compares symbolic leaves)"]

OPS = ["new", "add", "ifloordiv", "floordiv", "matmul", "imatmul", "barrier", "copy"]


def gen_program(rng, nstmts):
    """Returns list of statements (python dicts) — sizes tracked so most statements are admissible."""
    vars_m = {}          # var -> m
    leaves = {}          # var -> number of leaf matrices in it (the exact model multiplies them all: bounded below)
    MAX_LEAVES = 10
    frozen = set()       # nested by reference somewhere: not mutated afterwards
    nonempty = set()
    prog = []
    nv = 4
    # always start with a circuit
    m0 = rng.rint(2, 6)
    prog.append({"op": "new", "v": 0, "m": m0})
    vars_m[0] = m0
    leaves[0] = 0
    while len(prog) < nstmts:
        op = rng.choice(["new", "add", "add", "add", "add_range", "ifloordiv", "ifloordiv", "floordiv", "floordiv", "matmul",
                         "imatmul", "barrier", "copy"])
        if op == "new":
            free = [v for v in range(nv) if v not in vars_m]
            if not free:
                continue
            v = rng.choice(free)
            m = rng.rint(1, 5)
            prog.append({"op": "new", "v": v, "m": m})
            vars_m[v] = m
            leaves[v] = 0
            continue
        mutable = [v for v in vars_m if v not in frozen]
        if op in ("add", "add_range", "ifloordiv", "imatmul", "barrier"):
            if not mutable:
                continue
            v = rng.choice(mutable)
        else:
            v = rng.choice(list(vars_m))
        if op == "barrier":
            prog.append({"op": "barrier", "v": v})
            nonempty.add(v)
            continue
        if op == "copy":
            dst = rng.below(nv)
            if dst == v or dst in frozen:
                continue
            prog.append({"op": "copy", "dst": dst, "v": v})
            vars_m[dst] = vars_m[v]
            leaves[dst] = leaves.get(v, 0)
            if v in nonempty:
                nonempty.add(dst)
            else:
                nonempty.discard(dst)
            continue
        m = vars_m[v]
        # operand
        cand = [w for w in vars_m if w != v and vars_m[w] <= m]
        cand = [w for w in cand if leaves.get(v, 0) + leaves.get(w, 0) <= MAX_LEAVES]
        if leaves.get(v, 0) >= MAX_LEAVES:
            continue
        if cand and rng.chance(2, 5):
            w = rng.choice(cand)
            operand = {"var": w}
            k = vars_m[w]
        else:
            lf = gen.rand_leaf(rng, m)
            operand = {"leaf": lf}
            k = lf.k
        if rng.chance(1, 12):
            off = rng.rint(0, m)          # possibly inadmissible
        else:
            off = rng.rint(0, max(0, m - k))
        st = {"op": op, "v": v, "off": off, "operand": operand}
        if op == "add_range":
            # the position given as an explicit list / tuple of modes: mostly the consecutive range (= the offset form),
            # otherwise one of the shapes that must be refused
            st["op"] = op = "add"
            rg = list(range(off, off + k))
            shape = "consecutive"
            if rng.chance(1, 3):
                shape = rng.choice(["permuted", "repeated", "gap", "short", "long", "negative", "reversed"])
                if shape == "permuted" and k >= 2:
                    i = rng.below(k - 1)
                    rg[i], rg[i + 1] = rg[i + 1], rg[i]
                    if k >= 4:          # same first and last mode as the consecutive range
                        rg = [rg[0]] + rng.shuffle(rg[1:-1]) + [rg[-1]] if rg[0] == off and rg[-1] == off + k - 1 else rg
                elif shape == "repeated" and k >= 2:
                    i = rng.rint(1, k - 1)
                    rg[i] = rg[i - 1]
                    if k >= 3 and rng.chance(1, 2):      # keeps first, last and length: (o, o, o+2)
                        rg = list(range(off, off + k)); rg[1] = rg[0]
                elif shape == "gap" and k >= 2:
                    rg = [x + (1 if j >= rng.rint(1, k - 1) else 0) for j, x in enumerate(rg)]
                elif shape == "short" and k >= 2:
                    rg = rg[:-1]
                elif shape == "long":
                    rg = rg + [rg[-1] + 1]
                elif shape == "negative":
                    rg = [x - off - 1 for x in rg]
                elif shape == "reversed" and k >= 2:
                    rg = rg[::-1]
                else:
                    shape = "consecutive"
            st["range"] = rg
            st["range_kind"] = rng.choice(["list", "tuple"])
            st["range_shape"] = shape
        if op == "add":
            st["merge"] = rng.chance(1, 2)
        if op in ("floordiv", "matmul"):
            dst = rng.below(nv)
            if dst in frozen or ("var" in operand and operand["var"] == dst):
                continue
            st["dst"] = dst
        prog.append(st)
        ok = off + k <= m
        if "range" in st:
            ok = ok and st["range"] == list(range(off, off + k))
        if ok:
            tgt = st.get("dst", v)
            vars_m[tgt] = m
            leaves[tgt] = leaves.get(v, 0) + (leaves.get(operand["var"], 0) if "var" in operand else 1)
            nonempty.add(tgt)
            if "var" in operand:
                w = operand["var"]
                merged = (op != "add" or st["merge"]) and w in nonempty
                if not merged:
                    frozen.add(w)       # nested by reference
    return prog


def enc_operand(o):
    if "var" in o:
        return [0, o["var"]]
    lf = o["leaf"]
    return [1, lf.k, lf.U]


def enc_stmt(s):
    op = s["op"]
    if op == "new":
        return [0, s["v"], s["m"]]
    if op == "add" and "range" in s:
        return [8, s["v"], list(s["range"]), enc_operand(s["operand"]), s["merge"]]
    if op == "add":
        return [1, s["v"], s["off"], enc_operand(s["operand"]), s["merge"]]
    if op == "floordiv":
        return [2, s["dst"], s["v"], s["off"], enc_operand(s["operand"])]
    if op == "ifloordiv":
        return [3, s["v"], s["off"], enc_operand(s["operand"])]
    if op == "matmul":
        return [4, s["dst"], s["v"], s["off"], enc_operand(s["operand"])]
    if op == "imatmul":
        return [5, s["v"], s["off"], enc_operand(s["operand"])]
    if op == "barrier":
        return [6, s["v"]]
    return [7, s["dst"], s["v"]]


def show_stmt(s):
    def opnd(o):
        return f"c{o['var']}" if "var" in o else o["leaf"].describe()
    op = s["op"]
    if op == "new":
        return f"c{s['v']} = Circuit({s['m']})"
    if op == "add" and "range" in s:
        pos = tuple(s["range"]) if s["range_kind"] == "tuple" else list(s["range"])
        return f"c{s['v']}.add({pos}, {opnd(s['operand'])}, merge={s['merge']})"
    if op == "add":
        return f"c{s['v']}.add({s['off']}, {opnd(s['operand'])}, merge={s['merge']})"
    if op == "floordiv":
        return f"c{s['dst']} = c{s['v']} // ({s['off']}, {opnd(s['operand'])})"
    if op == "ifloordiv":
        return f"c{s['v']} //= ({s['off']}, {opnd(s['operand'])})"
    if op == "matmul":
        return f"c{s['dst']} = c{s['v']} @ ({s['off']}, {opnd(s['operand'])})"
    if op == "imatmul":
        return f"c{s['v']} @= ({s['off']}, {opnd(s['operand'])})"
    if op == "barrier":
        return f"c{s['v']}.barrier()"
    return f"c{s['dst']} = c{s['v']}.copy()"


def impl_step(env, s):
    """Executes one statement on real perceval objects. Returns True if accepted, False if it raised."""
    import perceval as pcvl
    op = s["op"]

    def opnd(o):
        return env[o["var"]] if "var" in o else o["leaf"].build()
    try:
        if op == "new":
            env[s["v"]] = pcvl.Circuit(s["m"])
        elif op == "add" and "range" in s:
            pos = tuple(s["range"]) if s["range_kind"] == "tuple" else list(s["range"])
            env[s["v"]].add(pos, opnd(s["operand"]), merge=s["merge"])
        elif op == "add":
            env[s["v"]].add(s["off"], opnd(s["operand"]), merge=s["merge"])
        elif op == "floordiv":
            env[s["dst"]] = env[s["v"]] // (s["off"], opnd(s["operand"]))
        elif op == "ifloordiv":
            c = env[s["v"]]
            c //= (s["off"], opnd(s["operand"]))
            env[s["v"]] = c
        elif op == "matmul":
            env[s["dst"]] = env[s["v"]] @ (s["off"], opnd(s["operand"]))
        elif op == "imatmul":
            c = env[s["v"]]
            c @= (s["off"], opnd(s["operand"]))
            env[s["v"]] = c
        elif op == "barrier":
            env[s["v"]].barrier()
        else:
            env[s["dst"]] = env[s["v"]].copy()
        return True
    except (AssertionError, KeyError) as e:
        return False


def impl_report(env):
    import numpy as np
    out = {}
    for v, c in env.items():
        u = c.compute_unitary()
        U = [[complex(x) for x in row] for row in np.array(u).tolist()]
        fl = [[r[0], len(r)] for r, _ in c]
        uni = bool(np.allclose(np.array(U) @ np.array(U).conj().T, np.eye(c.m), atol=1e-9))
        out[v] = (c.m, U, fl, uni)
    return out


def compare(prog, model_out):
    """Runs the implementation; returns None or (index, signature, what, expected, observed)."""
    env = {}
    known = {}     # last model report per variable (the model is pure: untouched variables keep theirs)
    for i, (s, mo) in enumerate(zip(prog, model_out)):
        ok_model = mo[0] == 1
        try:
            ok_impl = impl_step(env, s)
        except RecursionError:
            return (i, "impl-recursion", "RecursionError", None, None)
        except Exception as e:
            return (i, f"unexpected-exception-{type(e).__name__}", f"statement raised {type(e).__name__}: {e}", "accepted" if ok_model else "AssertionError", repr(e))
        if ok_model != ok_impl:
            return (i, "accept-reject-" + s["op"], "statement accepted by one side and rejected by the other",
                    "accepted" if ok_model else "rejected", "accepted" if ok_impl else "rejected")
        try:
            rep = impl_report(env)
        except Exception as e:
            return (i, f"report-exception-{type(e).__name__}", f"compute_unitary / listing of a variable raised {type(e).__name__}: {e} "
                    f"after `{show_stmt(s)}`", "the ordered product of the parts", repr(e))
        for e in mo[1]:
            known[e[0]] = e
        if set(known) != set(rep):
            return (i, "variable-set", "defined variables differ", sorted(known), sorted(rep))
        touched = s.get("dst", s.get("v"))
        for v in sorted(rep):
            m, U, fl, uni = rep[v]
            e = known[v]
            if e[1] != m:
                return (i, "mode-count", f"c{v}: mode count differs", e[1], m)
            Um = un_mat(e[2])
            if not mat_close(U, Um):
                sig = f"matrix-{s['op']}" + ("" if v == touched else "-other-variable-changed")
                return (i, sig, f"c{v}: reported matrix differs from the ordered product of its parts after `{show_stmt(s)}`",
                        str(Um), str(U))
            if e[3] != fl:
                sig = f"listing-{s['op']}" + ("" if v == touched else "-other-variable-changed")
                return (i, sig, f"c{v}: flattened component listing differs after `{show_stmt(s)}`", e[3], fl)
            if not uni:
                return (i, "not-unitary", f"c{v}: matrix not unitary", None, str(U))
    return None


def is_nontrivial(prog):
    for s in prog:
        o = s.get("operand")
        if o and "var" in o and (s["off"] > 0 or s["op"] != "add" or s.get("merge")):
            return True
    return False


def shrink(ctx, prog, sig):
    """Delete statements while the same failure signature persists."""
    cur = list(prog)
    changed = True
    while changed:
        changed = False
        for i in range(len(cur) - 1, -1, -1):
            cand = cur[:i] + cur[i + 1:]
            if not cand:
                continue
            try:
                mo = ctx.model.run([(10, [enc_stmt(s) for s in cand])])[0]
                r = compare(cand, mo)
            except Exception:
                r = None
            if r is not None and r[1] == sig:
                cur = cand
                changed = True
    return cur


def run(ctx):
    rng = ctx.rng
    n = ctx.n(300, 5000)
    progs = []
    # corpus first
    for p in corpus_programs():
        progs.append(p)
    for i in range(n):
        progs.append(gen_program(rng.fork(i), rng.rint(2, 12)))
    nest = nesting_programs(rng, ctx.n(80, 1500))
    progs += nest
    ctx.streams["three-level nesting patterns"] = len(nest)
    reqs = [(10, [enc_stmt(s) for s in p]) for p in progs]
    outs = ctx.model.run(reqs)
    reported = set()
    for p, mo in zip(progs, outs):
        text = [show_stmt(s) for s in p]
        key = [[s["op"], s.get("v"), s.get("dst"), s.get("off"), s.get("merge"), s.get("m"), s.get("range"),
                (s["operand"].get("var") if "var" in s.get("operand", {}) else (s["operand"]["leaf"].key() if "operand" in s else None))]
               for s in p]
        ctx.case(key, is_nontrivial(p), {"program": text})
        for s in p:
            ctx.count("op." + s["op"])
            if "range" in s:
                ctx.count("explicit-range." + s["range_shape"])
        ctx.count("len.%d" % len(p))
        r = compare(p, mo)
        if r is None:
            continue
        idx, sig, what, exp, obs = r
        if sig in reported:
            ctx.fail(sig, what, {"program": text}, exp, obs)
            continue
        reported.add(sig)
        small = shrink(ctx, p, sig)
        mo2 = ctx.model.run([(10, [enc_stmt(s) for s in small])])[0]
        r2 = compare(small, mo2) or r
        ctx.fail(sig, r2[2], {"program": [show_stmt(s) for s in small], "failing_statement_index": r2[0]}, r2[3], r2[4])
    ctx.streams["programs"] = len(progs)
    # extraction vs vm_compute on a small sample
    sample = reqs[len(corpus_programs()):len(corpus_programs()) + (3 if ctx.quick() else 25)]
    a = ctx.model.run(sample)
    b = ctx.model.vm_crosscheck(sample, "c01")
    ctx.count("vm_compute_crosscheck", len(sample))
    if a != b:
        ctx.fail("extraction-vs-vm_compute", "extracted runner and vm_compute disagree", {"n": len(sample)})


def corpus_programs():
    """Minimised past failures and design-time witnesses; always run first."""
    from ..common import Ang
    bs = gen.Leaf("BS", 2, gen.bs_exact(0, Ang(3, 4, 5), [Ang(1, 0, 1)] * 4), (0, 2 * Ang(3, 4, 5).value, [0.0] * 4))
    ps = gen.Leaf("PS", 1, [[QI(0, 1)]], (Ang(0, 1, 1).value,))
    return [
        # shorthand on a reused variable: b = a // X must not change a
        [{"op": "new", "v": 0, "m": 3}, {"op": "ifloordiv", "v": 0, "off": 0, "operand": {"leaf": bs}},
         {"op": "floordiv", "dst": 1, "v": 0, "off": 1, "operand": {"leaf": bs}},
         {"op": "floordiv", "dst": 2, "v": 0, "off": 2, "operand": {"leaf": ps}}],
        [{"op": "new", "v": 0, "m": 3}, {"op": "ifloordiv", "v": 0, "off": 0, "operand": {"leaf": bs}},
         {"op": "matmul", "dst": 1, "v": 0, "off": 1, "operand": {"leaf": bs}}],
        # nesting at offsets (1,1)
        [{"op": "new", "v": 0, "m": 5}, {"op": "new", "v": 1, "m": 3}, {"op": "new", "v": 2, "m": 2},
         {"op": "ifloordiv", "v": 2, "off": 0, "operand": {"leaf": bs}},
         {"op": "add", "v": 1, "off": 1, "operand": {"var": 2}, "merge": False},
         {"op": "add", "v": 0, "off": 1, "operand": {"var": 1}, "merge": False}],
    ]


def nesting_programs(rng, count):
    """Structured programs: three levels of nesting (inner circuit in a middle one in an outer one) with every offset
    and every way of attaching (add merge / no merge, //, @) at both levels, and a second, different leaf next to the
    nested circuit at each level — the shapes where the attachment offset of a nested sub-circuit matters."""
    progs = []
    for i in range(count):
        r = rng.fork(("nest", i))
        m_in = r.rint(1, 2)
        m_mid = r.rint(m_in + 1, m_in + 2)
        m_out = r.rint(m_mid + 1, m_mid + 2)
        p = [{"op": "new", "v": 0, "m": m_out}, {"op": "new", "v": 1, "m": m_mid}, {"op": "new", "v": 2, "m": m_in}]
        for _ in range(r.rint(1, 2)):
            lf = gen.rand_leaf(r, m_in)
            p.append({"op": "ifloordiv", "v": 2, "off": r.rint(0, m_in - lf.k), "operand": {"leaf": lf}})

        def attach(v, w, m_v, m_w):
            off = r.rint(0 if r.chance(1, 4) else 1, m_v - m_w)
            how = r.choice(["add-merge", "add-nest", "ifloordiv", "imatmul"])
            if how == "add-merge":
                return {"op": "add", "v": v, "off": off, "operand": {"var": w}, "merge": True}
            if how == "add-nest":
                return {"op": "add", "v": v, "off": off, "operand": {"var": w}, "merge": False}
            return {"op": how, "v": v, "off": off, "operand": {"var": w}}
        if r.chance(1, 2):
            lf = gen.rand_leaf(r, m_mid)
            p.append({"op": "ifloordiv", "v": 1, "off": r.rint(0, m_mid - lf.k), "operand": {"leaf": lf}})
        p.append(attach(1, 2, m_mid, m_in))
        if r.chance(1, 2):
            lf = gen.rand_leaf(r, m_mid)
            p.append({"op": "ifloordiv", "v": 1, "off": r.rint(0, m_mid - lf.k), "operand": {"leaf": lf}})
        if r.chance(1, 2):
            lf = gen.rand_leaf(r, m_out)
            p.append({"op": "ifloordiv", "v": 0, "off": r.rint(0, m_out - lf.k), "operand": {"leaf": lf}})
        p.append(attach(0, 1, m_out, m_mid))
        if r.chance(1, 3):
            p.append({"op": "copy", "dst": 3, "v": 0})
        progs.append(p)
    return progs


def replay(ctx, case):
    print(json.dumps(case, indent=1))
