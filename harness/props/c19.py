"""C19 — a job group on disk always matches the group in memory."""
from __future__ import annotations
import copy
import json
import os
import re
import shutil
import tempfile
import types

LEVEL = "proof"
RULE = ("world histories: several job groups identified by name (25 names: spaces, punctuation, characters reserved on "
        "other file systems, dots, unicode, 180 characters, names differing by case or by characters a sanitiser would "
        "merge), <= 10 operations among: open / re-open by name, operations on a live group (add [optionally a job "
        "already executed by the caller, optionally with max_samples / unknown keyword], adding again a sent job of the "
        "group, run_parallel, run_sequential, rerun_failed_parallel/sequential with replace or append, progress / "
        "list_*_jobs, get_results, track_progress), delete_job_group / delete_all_job_groups / delete_job_groups_date; "
        "<= 4 added jobs x server scripts (per HTTP request: accept with id + status / 429 / 500; ids mostly fresh, "
        "sometimes reused), run on the real JobGroup/RemoteJob/RPCHandler over a temporary directory under the "
        "`responses` library. The operation alphabet is checked against the public members of JobGroup (fails closed). "
        "Streams: exhaustive short histories over a 14-letter alphabet x fixed scripts on a tricky name, a corpus of "
        "past witnesses, random plain jobs, random sampler-like jobs (job_context, delta parameters), malformed "
        "(unfilled parameters, unknown keywords, duplicate ids), several groups with near-identical names and "
        "deletions; every history also runs with a re-open inserted before each launch. After every operation: outcome "
        "(returned / exception class), every live object, every file, every group re-opened BY NAME in a fresh object, "
        "list_existing(), the ordered sequence of requests received and of whole-file writes, number of answers "
        "consumed, progress/list sizes, len/[]/name/remote_jobs are compared with the model; re-opened vs memory and "
        "identifier uniqueness are checked directly. Non-trivial: at least one job launched and one operation after "
        "it; distinct by (operations, script).")
TRUSTED = ["model: coq/Model/JobGroup.v (hand-written; tied by this correspondence stream)",
           "fake cloud: harness/props/c19.py (responses callbacks, a stateless script interpreter)"]
ASSUMPTIONS = ["every add uses a fresh RemoteJob object (one object added twice is Python aliasing, outside the model)",
               "well-formed server answers (a running status comes with a numeric progress); torn writes inside "
               "write_file are outside the statement ('between operations')",
               "wall-clock: every access to RemoteJob.status is more than STATUS_REFRESH_DELAY after the previous one "
               "(fake clock); a throttled refresh is the script answer 'same status'",
               "authentication tokens contain no space (JobGroup._build_remote_job splits the header on ' ')",
               "group names are file names: no path separator, no NUL, at most 200 bytes (a name with '/' or longer than the "
               "file-system limit is silently not saved by PersistentData.write_file, which only warns)",
               "the fake cloud never has results (get_results returns None for every job; the cached-results path of "
               "RemoteJob._get_results is not exercised); track_progress is called only when no job of the group was "
               "never sent (it counts such a job as waiting for ever and would not return)",
               "one live JobGroup object per name (two objects on the same name both write the whole file)"]
EXPLANATION = ("Exact(m): the file is exactly the image of memory. Theorems (current code, any jobs, any script): Exact "
               "holds after every operation of every history, returning or raising. Repaired and kept as corpus "
               "regression guards: job_context lost on re-open (bf317fcd), add raising after the append (13320b52), "
               "second refresh inside get_results not written (65ec16e2), "
               "status refreshed inside a launch loop not written (9afb11d4: one more write on leaving the loop iff "
               "the jobs differ from what was last written or read; the write sequence is compared with the model).")

NAME_PREFIX = "c19g"
ST = ["WAITING", "RUNNING", "SUCCESS", "ERROR", "CANCELED", "SUSPENDED", "CANCEL_REQUESTED", "UNKNOWN"]
EXC = {1: "ValueError", 2: "RuntimeError", 3: "TypeError", 4: "HTTPError", 5: "AssertionError"}
N_META = 3


# ------------------------------------------------------------------ environment (outside world substitutes)
class Env:
    """Temp data directory, fake clock, no-op sleep/progress bars, scripted HTTP server."""

    def __init__(self):
        import responses
        import perceval.runtime.job_group as jgm
        import perceval.runtime.remote_job as rjm
        from perceval.runtime import JobGroup
        from perceval.runtime.rpc_handler import RPCHandler
        from perceval.utils import PersistentData
        self.jgm, self.rjm, self.JobGroup = jgm, rjm, JobGroup
        self.dir = tempfile.mkdtemp(prefix="c19_")
        self.saved = (JobGroup._PERSISTENT_DATA, JobGroup._DIR_PATH, jgm.time, jgm.tqdm, rjm.time)
        env = self

        class CountingData(PersistentData):
            """The disk layer, with every whole-file write reported to the observer (in order with the HTTP requests)."""

            def write_file(self, filename, data, file_format):
                env.log.append([3])
                return super().write_file(filename, data, file_format)
        self.log = []
        pd = CountingData(directory=self.dir)
        pd.create_sub_directory("job_group")
        JobGroup._PERSISTENT_DATA = pd
        JobGroup._DIR_PATH = os.path.join(self.dir, "job_group")
        from perceval.utils.logging import get_logger, level, channel
        get_logger().set_level(level.err, channel.user)      # console noise only
        self.clock = [1000.0]

        def fake_time():
            self.clock[0] += 10.0
            return self.clock[0]
        rjm.time = types.SimpleNamespace(time=fake_time, sleep=lambda s: None)
        jgm.time = types.SimpleNamespace(time=fake_time, sleep=lambda s: None)

        class NoBar:
            def __init__(self, *a, **k):
                self.n = 0

            def update(self, *a):
                pass

            def set_description_str(self, *a):
                pass

            def refresh(self):
                pass

            def close(self):
                pass
        jgm.tqdm = NoBar
        self.handlers = [RPCHandler(f"sim:p{m}", f"https://h{m}.test", f"tok{m}",
                                    {"https": "http://proxy.test:3128"} if m == 2 else None) for m in range(N_META)]
        self.script = []
        self.log = []
        self.consumed = 0
        self.rsps = responses.RequestsMock(assert_all_requests_are_fired=False)
        self.rsps.start()
        self.rsps.add_callback(responses.POST, re.compile(r"https://h\d\.test/api/job$"), callback=self._create)
        self.rsps.add_callback(responses.POST, re.compile(r"https://h\d\.test/api/job/rerun/.*"), callback=self._rerun)
        self.rsps.add_callback(responses.GET, re.compile(r"https://h\d\.test/api/job/status/.*"), callback=self._status)
        self.rsps.add_callback(responses.GET, re.compile(r"https://h\d\.test/api/job/result/.*"), callback=self._result)
        self.counter = 0

    def close(self):
        JobGroup = self.JobGroup
        self.rsps.stop()
        self.rsps.reset()
        JobGroup._PERSISTENT_DATA, JobGroup._DIR_PATH, self.jgm.time, self.jgm.tqdm, self.rjm.time = self.saved
        shutil.rmtree(self.dir, ignore_errors=True)
        from perceval.utils.logging import get_logger, level, channel
        get_logger().set_level(level.warn, channel.user)

    # --- scripted server: one answer per request, an exhausted script answers 500
    def _pop(self):
        self.consumed += 1
        if self.script:
            return self.script.pop(0)
        self.consumed -= 1
        return [2]

    @staticmethod
    def _jid(n):
        return f"J{n}"

    @staticmethod
    def _unjid(s):
        return [] if s == "None" else [int(s[1:])]

    def _create(self, request):
        self.log.append([0, enc_body(json.loads(request.body))])
        a = self._pop()
        if a[0] == 0:
            return (200, {"content-type": "application/json"}, json.dumps({"job_id": self._jid(a[1])}))
        return ({1: 429, 2: 500}[a[0]], {"content-type": "application/json"}, json.dumps({"error": "refused"}))

    def _rerun(self, request):
        jid = request.url.rsplit("/", 1)[1]
        self.log.append([1, self._unjid(jid)])
        if jid == "None":
            return (404, {}, "")
        a = self._pop()
        if a[0] == 0:
            return (200, {"content-type": "application/json"}, json.dumps({"job_id": self._jid(a[1])}))
        return ({1: 429, 2: 500}[a[0]], {}, "")

    def _status(self, request):
        jid = request.url.rsplit("/", 1)[1]
        self.log.append([2, self._unjid(jid)])
        a = self._pop()
        if a[0] == 0:
            name = ST[a[2]]
            body = {"status": "completed" if name == "SUCCESS" else name.lower(), "progress": 0.5,
                    "progress_message": "phase", "status_message": "message", "creation_datetime": 1000.0,
                    "start_time": 1001.0, "duration": 3}
            return (200, {"content-type": "application/json"}, json.dumps(body))
        return ({1: 429, 2: 500}[a[0]], {}, "")

    def _result(self, request):
        jid = request.url.rsplit("/", 1)[1]
        self.log.append([4, self._unjid(jid)])
        if jid == "None":
            return (404, {}, "")
        a = self._pop()
        if a[0] == 0:      # the fake cloud never has results: RemoteJob raises RuntimeError, the group stores None
            return (200, {"content-type": "application/json"}, json.dumps({"results": None}))
        return ({1: 429, 2: 500}[a[0]], {}, "")

    def clean(self):
        d = self.JobGroup._DIR_PATH
        for f in os.listdir(d):
            os.remove(os.path.join(d, f))

    def fresh_name(self):
        self.counter += 1
        return f"{NAME_PREFIX}{self.counter}"


# ------------------------------------------------------------------ encodings (model normal forms)
def opt(x):
    return [] if x is None else [x]


def enc_pval_entry(d, key):
    """option pval: absent -> [], None -> [[]], v -> [[v]]"""
    if key not in d:
        return []
    return [opt(d[key])]


def enc_body(b):
    p = dict(b["payload"])
    extra = set(p) - {"command", "tok", "max_samples", "max_shots", "job_context"}
    if extra or "job_context" not in p:
        raise ValueError(f"unexpected payload keys {sorted(p)}")
    c = p["job_context"]
    if c is None:
        ctx = []
    else:
        r = c.get("result_mapping")
        m = c.get("mapping_delta_parameters")
        ctx = [[opt(None if r is None else int(r[1][4:])),
                opt(None if m is None else [opt(m.get("max_samples")), opt(m.get("max_shots"))])]]
    nm = b["job_name"]
    return [int(nm[3:]) if nm.startswith("job") else 0,
            [enc_pval_entry(p, "max_samples"), enc_pval_entry(p, "max_shots"), p.get("tok", 0)], ctx]


def enc_meta(env, md):
    for i, h in enumerate(env.handlers):
        if md == {"headers": h.headers, "platform": h.name, "url": h.url, "proxies": h.proxies}:
            return i
    return -1


def enc_djob(env, d):
    from perceval.runtime import RunningStatus
    return [opt(None if d["id"] is None else int(d["id"][1:])),
            opt(None if d["status"] is None else RunningStatus[d["status"]].value),
            enc_meta(env, d["metadata"]),
            opt(enc_body(d["body"]) if "body" in d else None)]


def enc_job(env, j):
    """[id, status, error counter, image] of a live RemoteJob; the image is computed on a deep copy."""
    try:
        d = [enc_djob(env, copy.deepcopy(j)._to_dict())]
    except TypeError:
        d = []
    return [opt(None if j._id is None else int(j._id[1:])), j._job_status.status.value, j._status_refresh_error, d]


def build_job(env, spec):
    from perceval.runtime import RemoteJob
    name, pay, dcmd, dmap, ctx, meta = spec
    p = {"command": "probs", "tok": pay[2]}
    if pay[0]:
        p["max_samples"] = pay[0][0][0] if pay[0][0] else None
    if pay[1]:
        p["max_shots"] = pay[1][0][0] if pay[1][0] else None
    delta = {"command": {}, "mapping": {}}
    if dcmd:
        delta["command"]["max_samples"] = dcmd[0][0] if dcmd[0] else None
    if dmap:
        a, b = dmap[0]
        delta["mapping"]["max_samples"] = a[0] if a else None
        delta["mapping"]["max_shots"] = b[0] if b else None
    jc = None if not ctx else {"result_mapping": ["perceval.utils", f"conv{ctx[0]}"]}
    return RemoteJob({"platform_name": "sim:x", "payload": p}, env.handlers[meta], f"job{name}",
                     delta_parameters=delta, job_context=jc, command_param_names=["max_samples"])


# ------------------------------------------------------------------ histories
# op: ["reopen"] | ["add", spec, pre, kms(opt), kbad] | ["run", seq] | ["rerun", seq, repl] | ["progress", which]
def enc_op(o):
    k = o[0]
    if k == "reopen":
        return [0]
    if k == "add":
        return [1, o[1], o[2], o[3], o[4]]
    if k == "run":
        return [2, o[1]]
    if k == "rerun":
        return [3, o[1], o[2]]
    if k == "readd":
        return [5, o[1]]
    if k == "results":
        return [6]
    if k == "track":
        return [7]
    return [4]


def show_op(o):
    k = o[0]
    if k == "reopen":
        return "g = JobGroup(name)"
    if k == "add":
        name, pay, dcmd, dmap, ctx, meta = o[1]
        kw = ("" if not o[3] else f", max_samples={o[3][0]}") + (", bogus=1" if o[4] else "")
        feats = []
        if pay[0]:
            feats.append(f"payload.max_samples={pay[0][0][0] if pay[0][0] else None}")
        if pay[1]:
            feats.append(f"payload.max_shots={pay[1][0][0] if pay[1][0] else None}")
        if dcmd:
            feats.append(f"delta.command.max_samples={dcmd[0][0] if dcmd[0] else None}")
        if dmap:
            feats.append(f"delta.mapping={dmap[0]}")
        if ctx:
            feats.append(f"job_context=result_mapping:conv{ctx[0]}")
        return (f"j{name} = RemoteJob(handler{meta}; {', '.join(feats) or 'plain'})"
                + ("; j.execute_async() [exceptions swallowed]" if o[2] else "") + f"; g.add(j{name}{kw})")
    if k == "run":
        return "g.run_sequential(0)" if o[1] else "g.run_parallel()"
    if k == "rerun":
        return f"g.rerun_failed_{'sequential(0, ' if o[1] else 'parallel('}replace_failed_jobs={bool(o[2])})"
    if k == "readd":
        return f"g.add(g[{o[1]}])  # only if g[{o[1]}] exists and was sent"
    if k == "results":
        return "g.get_results()"
    if k == "track":
        return "g.track_progress()  # only if no job of g was never sent (it would not return)"
    return ["g.progress()", "g.list_successful_jobs()", "g.list_active_jobs()", "g.list_unsuccessful_jobs()"][o[1]]


def show_answer(a):
    return f"ok(id=J{a[1]}, {ST[a[2]]})" if a[0] == 0 else ("429" if a[0] == 1 else "500")


# group names: an input dimension of its own (file store indexed by name)
NAMES = ["plain_group", "sim:demo nightly", "Sim:Demo Nightly", "sim_demo nightly", "sim*demo nightly", "a.b.c", "grp.jgrp",
         "\u00fcn\u00efcod\u00e9-\u30b0\u30eb\u30fc\u30d7", " lead and trail ", 'q"uo<te>|p?', "x" * 180, "back\\slash", "tab\there",
         "a", "A", ".hidden", "trailing.", "semi;colon&amp", "per%cent%20", "new\nline", "~tilde$", "(paren)[brk]{brace}",
         "sim:demo  nightly", "sim:demo nightly ", "sim:demo nightly.jgrp"]
# world operations: ["open", n] | ["on", n, op] | ["delete", n] | ["delete_all"] | ["delete_date", all]
# group operations (op): ["add", spec, pre, kms, kbad] | ["run", seq] | ["rerun", seq, repl] | ["progress", which]
#                        | ["readd", k] | ["results"] | ["track"]
# every public member of JobGroup is either an operation of the histories or observed after every operation
OPERATIONS = {"__init__", "add", "run_parallel", "run_sequential", "rerun_failed_parallel", "rerun_failed_sequential",
              "progress", "list_successful_jobs", "list_active_jobs", "list_unsuccessful_jobs", "get_results",
              "track_progress", "delete_job_group", "delete_all_job_groups", "delete_job_groups_date"}
OBSERVED = {"__len__", "__getitem__", "name", "remote_jobs", "list_unsent_jobs", "list_existing"}
EXCLUDED = set()      # nothing: a new public member must be classified here, in OPERATIONS or in OBSERVED


def public_api(cls):
    return {n for n in vars(cls) if not n.startswith("_") or n in ("__init__", "__len__", "__getitem__", "__str__",
                                                                     "__repr__", "__iter__", "__contains__")}


def wenc(o):
    k = o[0]
    if k == "open":
        return [0, o[1]]
    if k == "on":
        return [1, o[1], enc_op(o[2])]
    if k == "delete":
        return [2, o[1]]
    if k == "delete_all":
        return [3]
    return [4, o[1]]


def wshow(o):
    k = o[0]
    if k == "open":
        return f"g{o[1]} = JobGroup({NAMES[o[1]]!r})"
    if k == "on":
        return f"[g{o[1]}] " + show_op(o[2]).replace("g.", f"g{o[1]}.").replace("g[", f"g{o[1]}[")
    if k == "delete":
        return f"JobGroup.delete_job_group({NAMES[o[1]]!r}); del g{o[1]}"
    if k == "delete_all":
        return "JobGroup.delete_all_job_groups(); all objects dropped"
    return f"JobGroup.delete_job_groups_date({'year 2999' if o[1] else 'year 1999'})" + ("; all objects dropped" if o[1] else "")


def show_case(wops, script):
    return {"operations": [wshow(o) for o in wops], "server_script": [show_answer(a) for a in script]}


def to_world(ops, n=0):
    """A single-group history as a world history on the name of index n."""
    out = [["open", n]]
    for o in ops:
        out.append(["open", n] if o[0] == "reopen" else ["on", n, o])
    return out


def impl_step(env, g, o):
    """Runs one group operation on the real group g. Returns (exception code, value)."""
    import requests
    k = o[0]
    val = None
    env.dup_expected = False       # the job about to be added carries an identifier already present in the group
    try:
        if k == "add":
            job = build_job(env, o[1])
            if o[2]:
                try:
                    job.execute_async()
                except Exception:
                    pass
            env.dup_expected = job.id is not None and job.id in [j._id for j in g._jobs]
            kw = {}
            if o[3]:
                kw["max_samples"] = o[3][0]
            if o[4]:
                kw["bogus"] = 1
            g.add(job, **kw)
        elif k == "run":
            g.run_sequential(0) if o[1] else g.run_parallel()
        elif k == "readd":
            # the same object: only for a sent job (refusal expected); an unsent one would be Python aliasing
            if o[1] < len(g._jobs) and g._jobs[o[1]].was_sent:
                env.dup_expected = True
                g.add(g._jobs[o[1]])
        elif k == "rerun":
            if o[1]:
                g.rerun_failed_sequential(0, replace_failed_jobs=bool(o[2]))
            else:
                g.rerun_failed_parallel(replace_failed_jobs=bool(o[2]))
        elif k == "results":
            val = g.get_results()
        elif k == "track":
            if not any((not j.was_sent) and j._job_status.waiting for j in g._jobs):
                g.track_progress()
        else:
            w = o[1]
            if w == 0:
                val = g.progress()
            else:
                val = len([g.list_successful_jobs, g.list_active_jobs, g.list_unsuccessful_jobs][w - 1]())
        return 0, val
    except ValueError:
        return 1, None
    except RuntimeError:
        return 2, None
    except TypeError:
        return 3, None
    except (requests.exceptions.HTTPError, requests.exceptions.ConnectionError):
        return 4, None
    except AssertionError:
        return 5, None


def impl_wstep(env, hs, wo):
    import datetime
    k = wo[0]
    env.dup_expected = False
    if k == "open":
        hs[wo[1]] = env.JobGroup(NAMES[wo[1]])
        return 0, None
    if k == "on":
        if wo[1] not in hs:
            return 0, None
        return impl_step(env, hs[wo[1]], wo[2])
    if k == "delete":
        env.JobGroup.delete_job_group(NAMES[wo[1]])
        hs.pop(wo[1], None)
    elif k == "delete_all":
        env.JobGroup.delete_all_job_groups()
        hs.clear()
    else:
        env.JobGroup.delete_job_groups_date(datetime.datetime(2999 if wo[1] else 1999, 1, 1))
        if wo[1]:
            hs.clear()
    return 0, None


def strip_errs(jobs):
    return [[j[0], j[3]] for j in jobs]


def diff_kind(mem, rel):
    """Classifies how the re-opened group differs from memory (both in model normal form, images only)."""
    if len(mem) != len(rel):
        return "length"
    kinds = set()
    for a, b in zip(mem, rel):
        if a == b:
            continue
        if not a[1] or not b[1]:
            kinds.add("unserialisable")
            continue
        da, db = a[1][0], b[1][0]
        if da[0] != db[0]:
            kinds.add("id")
        if da[1] != db[1]:
            kinds.add("status")
        if da[2] != db[2]:
            kinds.add("metadata")
        if da[3] != db[3]:
            if da[3] and db[3] and da[3][0][:2] == db[3][0][:2]:
                kinds.add("job_context")
            elif da[1] == db[1]:
                kinds.add("body")
    return "+".join(sorted(kinds)) or "other"


def opname(o):
    if o[0] == "on":
        return opname(o[2])
    if o[0] == "run":
        return "run_sequential" if o[1] else "run_parallel"
    if o[0] == "rerun":
        return "rerun_failed_sequential" if o[1] else "rerun_failed_parallel"
    if o[0] == "results":
        return "get_results"
    if o[0] == "track":
        return "track_progress"
    return o[0]


# Signatures. PROPERTY-LEVEL (what the statement names): reopened-* / other-group-changed-* (disk vs memory in any field),
# group-names-* (list_existing / re-open by name), identifier-twice-*, duplicate-identifier-accepted-*,
# raises-where-it-must-not-*, request-differs-after-reopen-*, progress-not-a-partition.
# CORRESPONDENCE-ONLY (model and implementation differ on something the statement does not speak about): model-* —
# the ordered log of requests / status polls / file writes, answers consumed, white-box fields of the jobs in memory,
# file content or re-opened group differing from the MODEL while agreeing with each other, accessor and progress values
# differing from the model, an outcome difference other than the two above; jobgroup-public-api-not-covered.
# When a history shows both kinds, only the property-level problems are reported.
def evaluate(env, wops, script, model_out):
    """Runs the world history on the implementation; compares with the model after every operation as long as both
    agree (a first disagreement is recorded as correspondence-only and the model is no longer consulted), and checks the
    property itself on the implementation alone after every operation of the whole history.
    Returns (problems, created): problems = [(index, signature, what, expected, observed, correspondence_only)]."""
    env.script = [list(a) for a in script]
    env.log = []
    corr = []
    prop = []
    created = {}
    hs = {}
    sync = True            # the model still describes the implementation
    diverged = False       # only the operation that introduces a disk / memory difference is reported
    dup_seen = False
    script_ids = [a[1] for a in script if a[0] == 0]
    JG = env.JobGroup

    def path(n):
        return os.path.join(JG._DIR_PATH, NAMES[n] + ".jgrp")

    def lost(i, sig, what, exp, obs):
        nonlocal sync
        corr.append((i, sig, what, exp, obs, True))
        sync = False
    try:
        for i, (o, mo) in enumerate(zip(wops, model_out)):
            env.log = []
            env.consumed = 0
            code, val = impl_wstep(env, hs, o)
            m_out, m_log, m_cons, m_files, m_handles, m_flag = mo
            where = f"after `{wshow(o)}`"
            how = "raises-" + EXC[code] if code else "returns"
            for r in env.log:
                if r[0] == 0:
                    created.setdefault(r[1][0], r[1])
            # ---- property: a job already present by identifier cannot be added twice
            if env.dup_expected and code != 1:
                prop.append((i, f"duplicate-identifier-accepted-{opname(o)}", f"a job whose identifier is already in the group "
                             f"was accepted ({how}) {where}", "ValueError", EXC.get(code, "returns"), False))
            if sync and env.log != m_log:
                # a different sequence of requests / writes: the script is consumed differently from here on, so a different
                # outcome is a consequence, not a finding of its own
                lost(i, f"model-requests-{opname(o)}", f"requests received by the server / writes of the file differ {where}", m_log, env.log)
            if sync and code != m_out:
                if m_out == 1 and code == 0:
                    if not env.dup_expected:
                        prop.append((i, f"duplicate-identifier-accepted-{opname(o)}", f"outcome differs {where}", "ValueError", "returns", False))
                    sync = False
                elif m_out == 0:
                    prop.append((i, f"raises-where-it-must-not-{opname(o)}-{EXC[code]}", f"the operation raises {where}",
                                 "returns", EXC[code], False))
                    sync = False
                else:
                    lost(i, f"model-outcome-{opname(o)}", f"outcome differs {where}", EXC.get(m_out, "returns"), EXC.get(code, "returns"))
            if sync and env.consumed != m_cons:
                lost(i, "model-consumed", f"number of answers consumed differs {where}", m_cons, env.consumed)
            # ---- property: the directory holds exactly the groups created and not deleted
            names = sorted(NAMES[n] for n in hs)
            existing = sorted(JG.list_existing())
            if existing != names and not diverged:
                diverged = True
                prop.append((i, f"group-names-{opname(o)}", f"JobGroup.list_existing() differs from the names of the groups created "
                             f"and not deleted {where}", names, existing, False))
            if sync and sorted(NAMES[f[0]] for f in m_files) != names:
                lost(i, "model-live-objects", f"names differ from the model {where}", sorted(NAMES[f[0]] for f in m_files), names)
            m_file = dict((f[0], f[1]) for f in m_files) if sync else {}
            m_hand = dict((h[0], h) for h in m_handles) if sync else {}
            for n in sorted(hs):
                g = hs[n]
                mem = [enc_job(env, j) for j in g._jobs]
                try:
                    raw = json.loads(open(path(n), encoding="utf-8").read())
                    dk = [enc_djob(env, d) for d in raw["job_group_data"]]
                except (OSError, ValueError):
                    dk = None
                clock = env.clock[0]
                g2 = JG(NAMES[n])            # re-open BY NAME in a fresh object
                env.clock[0] = clock
                rel = [enc_job(env, j) for j in g2._jobs]
                if sync:
                    h = m_hand[n]
                    if mem != h[1]:
                        lost(i, f"model-memory-{opname(o)}", f"jobs of g{n} in memory differ from the model {where}", h[1], mem)
                    elif dk != m_file.get(n):
                        lost(i, f"model-file-{opname(o)}", f"file of group {NAMES[n]!r} differs from the model {where}", m_file.get(n), dk)
                    elif rel != h[2]:
                        lost(i, f"model-reload-{opname(o)}", f"group {NAMES[n]!r} re-opened by name differs from the model {where}", h[2], rel)
                    else:
                        acc = (len(g), [j.id for j in g.remote_jobs], g.name, len(g.list_unsent_jobs()),
                               all(g[k] is g._jobs[k] for k in range(len(g))))
                        exp = (len(h[1]), [None if not j[0] else f"J{j[0][0]}" for j in h[1]], NAMES[n], h[4][3], True)
                        if acc != exp:
                            lost(i, "model-accessors", f"len / remote_jobs / name / list_unsent_jobs / [] of g{n} differ {where}", exp, acc)
                # ---- property: no identifier twice, in memory or on disk
                for wh, idl in (("memory", [j[0][0] for j in mem if j[0]]), ("disk", [d[0][0] for d in (dk or []) if d[0]])):
                    if len(idl) != len(set(idl)) and len(set(script_ids)) == len(script_ids) and not dup_seen:
                        dup_seen = True
                        prop.append((i, f"identifier-twice-{wh}-after-{opname(o)}", f"the same identifier appears twice in {wh} "
                                     f"(group {NAMES[n]!r}) {where}; the server never issued an identifier twice", None, idl, False))
                # ---- property: the group re-opened by name is the group in memory
                a, b = strip_errs(mem), strip_errs(rel)
                if a != b and not diverged:
                    diverged = True
                    kind = diff_kind(a, b)
                    acted = o[0] == "on" and o[1] == n
                    if kind == "job_context":
                        sig = "reopened-job_context-lost"
                    elif acted or o[0] == "open":
                        sig = f"reopened-differs-{kind}-after-{opname(o)}-{how}"
                    else:
                        sig = f"other-group-changed-{kind}-after-{opname(o)}"
                    prop.append((i, sig, f"re-opening {NAMES[n]!r} by name {where} ({how}) does not give the group in memory [{kind}]",
                                 a, b, False))
            if o[0] == "on" and code == 0 and o[1] in hs:
                n = o[1]
                if o[2][0] == "progress" and o[2][1] == 0:
                    fin, unf = val["Finished"], val["Unfinished"]
                    if not (fin[0] + unf[0] == val["Total"] == len(hs[n]._jobs) and sum(fin[1].values()) == fin[0]
                            and sum(unf[1].values()) == unf[0]):
                        prop.append((i, "progress-not-a-partition", f"progress() does not partition the jobs {where}",
                                     len(hs[n]._jobs), val, False))
                if sync:
                    h = m_hand[n]
                    if o[2][0] == "progress":
                        if o[2][1] == 0:
                            u, s_, ot, a = h[3]
                            exp = {"Total": len(h[1]), "Finished": [s_ + ot, {"successful": s_, "unsuccessful": ot}],
                                   "Unfinished": [a + u, {"sent": a, "not sent": u}]}
                            if val != exp:
                                lost(i, "model-progress", f"progress() differs from the model {where}", exp, val)
                        elif val != h[4][o[2][1] - 1]:
                            lost(i, "model-list", f"list size differs from the model {where}", h[4][o[2][1] - 1], val)
                    elif o[2][0] == "results" and val != [None] * len(h[1]):
                        lost(i, "model-results", f"get_results() differs {where}", [None] * len(h[1]), val)
    finally:
        env.clean()
    return (prop or corr[:1]), created


# ------------------------------------------------------------------ generators
def plain_spec(rng, name):
    pay = [[], [], rng.rint(1, 9)]
    k = rng.below(6)
    if k == 0:
        pay[1] = [[rng.rint(1, 50)]]
    elif k == 1:
        pay[0], pay[1] = [[rng.rint(1, 50)]], [[rng.rint(1, 50)]]
    elif k == 2:
        pay[0] = [[rng.rint(1, 50)]]
    dcmd = [[rng.rint(1, 50)]] if rng.chance(1, 6) else []
    return [name, pay, dcmd, [], [], rng.below(N_META)]


def sampler_spec(rng, name):
    """The shapes Sampler._create_job produces."""
    s = plain_spec(rng, name)
    s[1][1] = [[rng.rint(1, 50)]]
    k = rng.below(4)
    if k == 0:      # sample_count on a 'samples' platform
        s[2] = [[]]
        s[4] = [rng.rint(1, 3)]
    elif k == 1:    # samples -> probs mapping
        s[3] = [[[], [rng.rint(1, 50)]]]
        s[4] = [rng.rint(1, 3)]
    elif k == 2:
        s[4] = [rng.rint(1, 3)]
    else:
        s[2] = [[rng.rint(1, 50)]]
    return s


def gen_script(rng, n, dup=False):
    sc = []
    nid = 10
    for _ in range(n):
        k = rng.below(12)
        if k == 0:
            sc.append([1])
        elif k == 1:
            sc.append([2])
        else:
            if dup and rng.chance(1, 4) and nid > 10:
                i = rng.rint(10, nid - 1)
            else:
                i = nid
                nid += 1
            sc.append([0, i, rng.choice([0, 1, 2, 2, 3, 3, 4, 5, 6, 7, rng.below(8)])])
    return sc


def gen_history(rng, stream):
    n = rng.rint(2, 8)
    ops = []
    adds = 0
    while len(ops) < n:
        k = rng.below(14)
        if (k < 4 or not ops) and adds < 4:
            adds += 1
            if stream == "plain":
                spec = plain_spec(rng, adds)
                kms, kbad = [], False
                if spec[2] == [] and rng.chance(1, 8):
                    pass
            elif stream == "context":
                spec = sampler_spec(rng, adds) if rng.chance(2, 3) else plain_spec(rng, adds)
                need = (spec[2] == [[]]) or (spec[3] and spec[3][0][0] == [])
                kms, kbad = ([rng.rint(1, 60)] if need else []), False
            else:
                spec = sampler_spec(rng, adds) if rng.chance(1, 2) else plain_spec(rng, adds)
                need = (spec[2] == [[]]) or (spec[3] and spec[3][0][0] == [])
                kms = [rng.rint(1, 60)] if (need and rng.chance(1, 2)) or rng.chance(1, 8) else []
                kbad = rng.chance(1, 8)
                if rng.chance(1, 10):
                    spec[1][0] = [[]]
            ops.append(["add", spec, rng.chance(1, 5), kms, kbad])
        elif k < 5:
            ops.append(["reopen"] if rng.chance(1, 2) else ["readd", rng.below(max(1, adds + 1))])
        elif k < 8:
            ops.append(["run", rng.chance(1, 3)])
        elif k < 11:
            ops.append(["rerun", rng.chance(1, 3), rng.chance(1, 2)])
        elif k < 12:
            ops.append(["progress", rng.below(4)])
        else:
            ops.append(rng.choice([["progress", rng.below(4)], ["results"], ["results"], ["track"]]))
    return ops, gen_script(rng, rng.rint(0, 16), dup=(stream == "malformed"))


ALPHABET = [["add", [1, [[], [], 1], [], [], [], 0], False, [], False],
            ["add", [2, [[], [[5]], 2], [[9]], [], [], 2], True, [], False],
            ["reopen"], ["run", False], ["run", True], ["rerun", False, False], ["rerun", False, True],
            ["rerun", True, True], ["rerun", True, False], ["progress", 0], ["readd", 0], ["readd", 1], ["results"], ["track"]]
FIXED_SCRIPTS = [
    [[0, 10, 2], [0, 11, 3], [0, 12, 1], [0, 13, 3], [0, 14, 2], [0, 15, 4], [0, 16, 2], [0, 17, 2], [0, 18, 2], [0, 19, 2]],
    [[0, 10, 3], [2], [0, 11, 1], [0, 12, 3], [1], [0, 13, 2], [0, 14, 3], [0, 15, 2], [2]],
    [[0, 10, 0], [0, 11, 0], [0, 12, 1], [0, 13, 6], [0, 14, 3], [0, 15, 3], [0, 16, 1], [0, 17, 2], [0, 18, 4], [0, 19, 2],
     [0, 20, 2], [0, 21, 2]],
]


# regression guards: witnesses of the defects repaired by bf317fcd (job_context restored on re-open) and 13320b52
# (add validates before the append), and of the still open launch-loop finding
_CTX = [1, [[], [[10]], 1], [], [], [7], 0]
_CTXMAP = [2, [[], [[10]], 2], [], [[[], [20]]], [3], 1]
_UNFILLED = [1, [[], [[10]], 1], [[]], [], [], 0]
CORPUS = [
    ([["add", _CTX, False, [], False], ["reopen"], ["run", False]], [[0, 10, 0]]),
    ([["add", _CTX, False, [], False], ["run", False], ["progress", 0], ["rerun", False, False], ["reopen"], ["progress", 0]],
     [[0, 10, 0], [0, 10, 3], [0, 11, 0], [0, 11, 2], [0, 11, 2]]),
    ([["add", _CTXMAP, False, [25], False], ["reopen"], ["run", True]], [[0, 10, 0], [0, 10, 2]]),
    ([["add", _UNFILLED, False, [], False], ["add", [2, [[], [], 2], [], [], [], 0], False, [], False], ["run", False]],
     [[0, 10, 0]]),
    ([["add", _UNFILLED, False, [5], False], ["run", False]], [[0, 10, 0]]),
    ([["add", [1, [[], [], 1], [], [], [], 0], True, [], False], ["rerun", False, False]], [[0, 10, 0], [0, 11, 0], [0, 12, 1]]),
    ([["add", [1, [[], [], 1], [], [], [], 0], False, [], False], ["run", True]], [[0, 10, 0], [0, 11, 1]]),
    # a sent job of the group added again, whatever gave it its identifier
    ([["add", [1, [[], [], 1], [], [], [], 0], True, [], False], ["readd", 0], ["add", [2, [[], [], 2], [], [], [], 1], False, [], False],
      ["run", False], ["readd", 1], ["progress", 0], ["rerun", False, True], ["readd", 0], ["readd", 1], ["progress", 0],
      ["rerun", True, False], ["readd", 2], ["readd", 3], ["reopen"], ["readd", 2]],
     [[0, 10, 0], [0, 11, 0], [0, 10, 3], [0, 11, 4], [0, 12, 0], [0, 13, 0], [0, 12, 3], [0, 13, 2], [0, 14, 0], [0, 14, 2]]),
]


# world-level corpus: every refreshing entry point after a launch, tricky names, two groups alive, deletions
_P = lambda n, m=0: [n, [[], [], n], [], [], [], m]
WCORPUS = [
    # (e) repaired by 65ec16e2: second refresh of an UNKNOWN job inside get_results
    ([["open", 0], ["on", 0, ["add", _P(1), True, [], False]], ["on", 0, ["results"]], ["open", 0], ["on", 0, ["progress", 0]]],
     [[0, 10, 0], [0, 11, 7], [0, 12, 2], [0, 0, 0]]),
    ([["open", 1], ["on", 1, ["add", _P(1), False, [], False]], ["on", 1, ["run", False]], ["on", 1, ["progress", 0]], ["on", 1, ["results"]]],
     [[0, 10, 0], [0, 10, 7], [0, 10, 7], [0, 10, 3], [2]]),
    ([["open", 1], ["on", 1, ["add", _P(1), False, [], False]], ["on", 1, ["add", _P(2), False, [], False]], ["on", 1, ["run", False]],
      ["on", 1, ["results"]], ["open", 1], ["on", 1, ["progress", 0]]], [[0, 10, 0], [0, 11, 0], [0, 10, 2], [0, 11, 3], [0, 0, 0], [0, 0, 0]]),
    ([["open", 1], ["on", 1, ["add", _P(1), False, [], False]], ["on", 1, ["run", False]], ["on", 1, ["track"]], ["open", 1]],
     [[0, 10, 0], [0, 10, 1], [0, 10, 6], [0, 10, 2]]),
    ([["open", 1], ["open", 3], ["open", 2], ["on", 1, ["add", _P(1), False, [], False]], ["on", 3, ["add", _P(2), True, [], False]],
      ["on", 2, ["add", _P(3), False, [], False]], ["on", 1, ["run", False]], ["open", 1], ["open", 3], ["delete", 3], ["open", 2],
      ["on", 2, ["run", True]], ["delete_date", False], ["delete", 1], ["open", 1], ["delete_date", True]],
     [[0, 10, 0], [0, 11, 0], [0, 12, 0], [0, 12, 2]]),
    ([["open", 9], ["on", 9, ["add", _P(1), False, [], False]], ["open", 22], ["open", 23], ["open", 24], ["on", 23, ["add", _P(2), False, [], False]],
      ["on", 9, ["run", False]], ["open", 9], ["delete", 22], ["open", 23], ["delete_all"], ["open", 9]], [[0, 10, 0]]),
]


def with_reopens(wops):
    out = []
    for o in wops:
        if o[0] == "on" and o[2][0] in ("run", "rerun"):
            out.append(["open", o[1]])
        out.append(o)
    return out


def is_nontrivial(wops):
    for i, o in enumerate(wops):
        if o[0] == "on" and o[2][0] in ("run", "rerun") and i + 1 < len(wops) \
                and any(p[0] == "on" and p[2][0] == "add" for p in wops[:i]):
            return True
    return False


def gen_world(rng):
    """Several groups with tricky / near-identical names alive at once, with deletions."""
    pool = rng.shuffle(list(range(len(NAMES))))[:rng.rint(1, 3)]
    if rng.chance(1, 2):
        pool = rng.choice([[1, 2, 3], [1, 3, 4], [1, 22, 23], [1, 24, 3], [13, 14], [5, 6, 24]])[:rng.rint(2, 3)]
    wops = []
    adds = 0
    n_ops = rng.rint(3, 10)
    while len(wops) < n_ops:
        n = rng.choice(pool)
        k = rng.below(16)
        if k < 3 or not wops:
            wops.append(["open", n])
        elif k < 7 and adds < 4:
            adds += 1
            wops.append(["on", n, ["add", plain_spec(rng, adds) if rng.chance(2, 3) else sampler_spec(rng, adds), rng.chance(1, 4), [], False]])
            sp = wops[-1][2][1]
            if (sp[2] == [[]]) or (sp[3] and sp[3][0][0] == []):
                wops[-1][2][3] = [rng.rint(1, 60)]
        elif k < 9:
            wops.append(["on", n, ["run", rng.chance(1, 3)]])
        elif k < 10:
            wops.append(["on", n, ["rerun", rng.chance(1, 3), rng.chance(1, 2)]])
        elif k < 12:
            wops.append(["on", n, rng.choice([["progress", rng.below(4)], ["results"], ["track"], ["readd", rng.below(3)]])])
        elif k < 14:
            wops.append(["delete", n])
        elif k < 15:
            wops.append(["delete_date", rng.chance(1, 2)])
        else:
            wops.append(["delete_all"])
    return wops, gen_script(rng, rng.rint(0, 12))


def shrink(ctx, env, ops, script, sig):
    def fails(o2, s2):
        try:
            mo = ctx.model.run([(1902, [[wenc(o) for o in o2], s2])])[0]
            pr, _ = evaluate(env, o2, s2, mo)
        except Exception:
            return None
        for p in pr:
            if p[1] == sig:
                return p
        return None
    cur_o, cur_s = list(ops), list(script)
    changed = True
    while changed:
        changed = False
        for i in range(len(cur_o) - 1, -1, -1):
            c = cur_o[:i] + cur_o[i + 1:]
            if c and fails(c, cur_s):
                cur_o = c
                changed = True
        for i in range(len(cur_s) - 1, -1, -1):
            c = cur_s[:i] + cur_s[i + 1:]
            if fails(cur_o, c):
                cur_s = c
                changed = True
    return cur_o, cur_s, fails(cur_o, cur_s)


def run(ctx):
    rng = ctx.rng
    env = Env()
    try:
        # the operation alphabet is complete with respect to the public members of JobGroup (fails closed)
        api = public_api(env.JobGroup)
        if api != OPERATIONS | OBSERVED | EXCLUDED:
            ctx.fail("jobgroup-public-api-not-covered", "public members of JobGroup that are neither operations of the "
                     "histories nor observed nor excluded (or the converse)", {"members": sorted(api)},
                     sorted(OPERATIONS | OBSERVED | EXCLUDED), sorted(api ^ (OPERATIONS | OBSERVED | EXCLUDED)),
                     correspondence_only=True)
        hist = []      # (stream, ops, script)
        # exhaustive short histories
        L = 3 if ctx.quick() else 4
        words = [[]]
        allw = []
        for _ in range(L):
            words = [w + [a] for w in words for a in range(len(ALPHABET))]
            allw += words
        for w in allw:
            ops = []
            n_add = 0
            for a in w:
                o = copy.deepcopy(ALPHABET[a])
                if o[0] == "add":
                    n_add += 1
                    o[1][0] = n_add
                ops.append(o)
            for sc in (FIXED_SCRIPTS if len(w) < 3 else FIXED_SCRIPTS[:2]):
                hist.append(("exhaustive-short", to_world(ops, 1), sc))
        for k, (ops, sc) in enumerate(CORPUS):
            hist.append(("corpus", to_world(copy.deepcopy(ops), k % len(NAMES)), sc))
        for wops, sc in WCORPUS:
            hist.append(("corpus", copy.deepcopy(wops), sc))
        n_ex = len(hist)
        for stream, n in (("plain", ctx.n(1200, 12000)), ("context", ctx.n(500, 5000)), ("malformed", ctx.n(500, 5000))):
            for i in range(n):
                r = rng.fork(f"{stream}{i}")
                ops, sc = gen_history(r, stream)
                hist.append((stream, to_world(ops, r.below(len(NAMES))), sc))
        for i in range(ctx.n(700, 8000)):
            wops, sc = gen_world(rng.fork(f"names{i}"))
            hist.append(("names", wops, sc))
        # every history once more with a re-open before each launch
        pairs = []
        base_n = len(hist)
        for k in range(base_n):
            stream, ops, sc = hist[k]
            if stream == "exhaustive-short" and not ctx.quick() and len(ops) == 4:
                continue
            if any(o[0] == "on" and o[2][0] in ("run", "rerun") for o in ops):
                pairs.append((k, len(hist)))
                hist.append((stream + "+reopen", with_reopens(ops), sc))
        reqs = [(1902, [[wenc(o) for o in ops], sc]) for _, ops, sc in hist]
        outs = ctx.model.run(reqs)
        ctx.log(f"{len(hist)} histories ({n_ex} exhaustive-short), model evaluated")
        reported = set()
        created_all = {}
        for k, ((stream, ops, sc), mo) in enumerate(zip(hist, outs)):
            ctx.streams[stream] = ctx.streams.get(stream, 0) + 1
            nt = is_nontrivial(ops)
            ctx.case([[wenc(o) for o in ops], sc], nt, show_case(ops, sc) if nt and len(ops) >= 5 else None)
            for o in ops:
                ctx.count("op." + opname(o))
            for r in mo:
                ctx.count("outcome." + EXC.get(r[0], "returns"))
                if r[5]:
                    ctx.count("model.unsaved_flag")
            problems, created = evaluate(env, ops, sc, mo)
            created_all[k] = created
            for (i, sig, what, exp, obs, co) in problems:
                ctx.count("problems.correspondence-only" if co else "problems.property-level")
                if sig in reported:
                    ctx.fail(sig, what, show_case(ops, sc), exp, obs, correspondence_only=co)
                    continue
                reported.add(sig)
                so, ss, p = shrink(ctx, env, ops, sc, sig)
                if p is None:
                    so, ss, p = ops, sc, (i, sig, what, exp, obs, co)
                case = show_case(so, ss)
                case["failing_operation_index"] = p[0]
                ctx.fail(sig, p[2], case, p[3], p[4], correspondence_only=co)
        # request bodies: re-opened in between vs not
        for a, b in pairs:
            ca, cb = created_all.get(a, {}), created_all.get(b, {})
            for name in sorted(set(ca) & set(cb)):
                ctx.count("request_pairs_compared")
                if ca[name] != cb[name]:
                    only_ctx = ca[name][:2] == cb[name][:2]
                    sig = "request-differs-after-reopen-" + ("job_context" if only_ctx else "body")
                    stream, ops, sc = hist[a]
                    if sig in reported:
                        ctx.fail(sig, "request differs", show_case(ops, sc), ca[name], cb[name])
                        continue
                    reported.add(sig)
                    ctx.fail(sig, f"the request sent for job{name} differs when the group is re-opened before the launch",
                             show_case(ops, sc), ca[name], cb[name])
        # extraction vs vm_compute on a small sample
        sample = reqs[n_ex:n_ex + (3 if ctx.quick() else 25)]
        x = ctx.model.run(sample)
        y = ctx.model.vm_crosscheck(sample, "c19")
        ctx.count("vm_compute_crosscheck", len(sample))
        if x != y:
            ctx.fail("extraction-vs-vm_compute", "extracted runner and vm_compute disagree", {"n": len(sample)},
                     correspondence_only=True)
    finally:
        env.close()


def replay(ctx, case):
    print(json.dumps(case, indent=1))
