"""C19 — a job group on disk always matches the group in memory."""
from __future__ import annotations
import copy
import json
import os
import re
import shutil
import tempfile
import types

LEVEL = "proof"
RULE = ("histories of <= 8 group operations (re-open by name, add [optionally a job already executed by the caller, "
        "optionally with max_samples / unknown keyword], run_parallel, run_sequential, rerun_failed_parallel/"
        "sequential with replace or append, progress / list_*_jobs, adding again a sent job of the group) with <= 4 added jobs x server scripts (per HTTP "
        "request: accept with id + status / 429 / 500; ids mostly fresh, sometimes reused), run on the real JobGroup/"
        "RemoteJob/RPCHandler over a temporary directory under the `responses` library; streams: exhaustive short "
        "histories over a 12-letter alphabet x fixed scripts, a corpus of past witnesses, random plain jobs, random sampler-like jobs "
        "(job_context, delta parameters), malformed (unfilled parameters, unknown keywords, duplicate ids); every "
        "history also runs with a re-open inserted before each launch. After every operation: outcome (returned / "
        "exception class), memory, file content, re-opened group, the ordered sequence of requests received and of "
        "whole-file writes, number of answers consumed and "
        "progress/list sizes are compared with the model; re-opened vs memory are compared directly. Non-trivial: "
        "at least one job launched and one operation after it; distinct by (operations, script).")
TRUSTED = ["model: coq/Model/JobGroup.v (hand-written; tied by this correspondence stream)",
           "fake cloud: harness/props/c19.py (responses callbacks, a stateless script interpreter)"]
ASSUMPTIONS = ["every add uses a fresh RemoteJob object (one object added twice is Python aliasing, outside the model)",
               "well-formed server answers (a running status comes with a numeric progress); torn writes inside "
               "write_file are outside the statement ('between operations')",
               "wall-clock: every access to RemoteJob.status is more than STATUS_REFRESH_DELAY after the previous one "
               "(fake clock); a throttled refresh is the script answer 'same status'",
               "authentication tokens contain no space (JobGroup._build_remote_job splits the header on ' ')",
               "track_progress, get_results, delete_* are not modelled"]
EXPLANATION = ("Exact(m): the file is exactly the image of memory. Theorems (current code, any jobs, any script): Exact "
               "holds after every operation of every history, returning or raising. Repaired and kept as corpus "
               "regression guards: job_context lost on re-open (bf317fcd), add raising after the append (13320b52), "
               "status refreshed inside a launch loop not written (9afb11d4: one more write on leaving the loop iff "
               "the jobs differ from what was last written or read; the write sequence is compared with the model).")

NAME_PREFIX = "c19g"
ST = ["WAITING", "RUNNING", "SUCCESS", "ERROR", "CANCELED", "SUSPENDED", "CANCEL_REQUESTED", "UNKNOWN"]
EXC = {1: "ValueError", 2: "RuntimeError", 3: "TypeError", 4: "HTTPError", 5: "AssertionError"}
N_META = 3


# ------------------------------------------------------------------ environment (outside world substitutes)
class Env:
    """Temp data directory, fake clock, no-op sleep/progress bars, scripted HTTP server."""

    def __init__(self):
        import responses
        import perceval.runtime.job_group as jgm
        import perceval.runtime.remote_job as rjm
        from perceval.runtime import JobGroup
        from perceval.runtime.rpc_handler import RPCHandler
        from perceval.utils import PersistentData
        self.jgm, self.rjm, self.JobGroup = jgm, rjm, JobGroup
        self.dir = tempfile.mkdtemp(prefix="c19_")
        self.saved = (JobGroup._PERSISTENT_DATA, JobGroup._DIR_PATH, jgm.time, jgm.tqdm, rjm.time)
        env = self

        class CountingData(PersistentData):
            """The disk layer, with every whole-file write reported to the observer (in order with the HTTP requests)."""

            def write_file(self, filename, data, file_format):
                env.log.append([3])
                return super().write_file(filename, data, file_format)
        self.log = []
        pd = CountingData(directory=self.dir)
        pd.create_sub_directory("job_group")
        JobGroup._PERSISTENT_DATA = pd
        JobGroup._DIR_PATH = os.path.join(self.dir, "job_group")
        from perceval.utils.logging import get_logger, level, channel
        get_logger().set_level(level.err, channel.user)      # console noise only
        self.clock = [1000.0]

        def fake_time():
            self.clock[0] += 10.0
            return self.clock[0]
        rjm.time = types.SimpleNamespace(time=fake_time, sleep=lambda s: None)
        jgm.time = types.SimpleNamespace(time=fake_time, sleep=lambda s: None)

        class NoBar:
            def __init__(self, *a, **k):
                self.n = 0

            def update(self, *a):
                pass

            def set_description_str(self, *a):
                pass

            def refresh(self):
                pass

            def close(self):
                pass
        jgm.tqdm = NoBar
        self.handlers = [RPCHandler(f"sim:p{m}", f"https://h{m}.test", f"tok{m}",
                                    {"https": "http://proxy.test:3128"} if m == 2 else None) for m in range(N_META)]
        self.script = []
        self.log = []
        self.consumed = 0
        self.rsps = responses.RequestsMock(assert_all_requests_are_fired=False)
        self.rsps.start()
        self.rsps.add_callback(responses.POST, re.compile(r"https://h\d\.test/api/job$"), callback=self._create)
        self.rsps.add_callback(responses.POST, re.compile(r"https://h\d\.test/api/job/rerun/.*"), callback=self._rerun)
        self.rsps.add_callback(responses.GET, re.compile(r"https://h\d\.test/api/job/status/.*"), callback=self._status)
        self.counter = 0

    def close(self):
        JobGroup = self.JobGroup
        self.rsps.stop()
        self.rsps.reset()
        JobGroup._PERSISTENT_DATA, JobGroup._DIR_PATH, self.jgm.time, self.jgm.tqdm, self.rjm.time = self.saved
        shutil.rmtree(self.dir, ignore_errors=True)
        from perceval.utils.logging import get_logger, level, channel
        get_logger().set_level(level.warn, channel.user)

    # --- scripted server: one answer per request, an exhausted script answers 500
    def _pop(self):
        self.consumed += 1
        if self.script:
            return self.script.pop(0)
        self.consumed -= 1
        return [2]

    @staticmethod
    def _jid(n):
        return f"J{n}"

    @staticmethod
    def _unjid(s):
        return [] if s == "None" else [int(s[1:])]

    def _create(self, request):
        self.log.append([0, enc_body(json.loads(request.body))])
        a = self._pop()
        if a[0] == 0:
            return (200, {"content-type": "application/json"}, json.dumps({"job_id": self._jid(a[1])}))
        return ({1: 429, 2: 500}[a[0]], {"content-type": "application/json"}, json.dumps({"error": "refused"}))

    def _rerun(self, request):
        jid = request.url.rsplit("/", 1)[1]
        self.log.append([1, self._unjid(jid)])
        if jid == "None":
            return (404, {}, "")
        a = self._pop()
        if a[0] == 0:
            return (200, {"content-type": "application/json"}, json.dumps({"job_id": self._jid(a[1])}))
        return ({1: 429, 2: 500}[a[0]], {}, "")

    def _status(self, request):
        jid = request.url.rsplit("/", 1)[1]
        self.log.append([2, self._unjid(jid)])
        a = self._pop()
        if a[0] == 0:
            name = ST[a[2]]
            body = {"status": "completed" if name == "SUCCESS" else name.lower(), "progress": 0.5,
                    "progress_message": "phase", "status_message": "message", "creation_datetime": 1000.0,
                    "start_time": 1001.0, "duration": 3}
            return (200, {"content-type": "application/json"}, json.dumps(body))
        return ({1: 429, 2: 500}[a[0]], {}, "")

    def fresh_name(self):
        self.counter += 1
        return f"{NAME_PREFIX}{self.counter}"


# ------------------------------------------------------------------ encodings (model normal forms)
def opt(x):
    return [] if x is None else [x]


def enc_pval_entry(d, key):
    """option pval: absent -> [], None -> [[]], v -> [[v]]"""
    if key not in d:
        return []
    return [opt(d[key])]


def enc_body(b):
    p = dict(b["payload"])
    extra = set(p) - {"command", "tok", "max_samples", "max_shots", "job_context"}
    if extra or "job_context" not in p:
        raise ValueError(f"unexpected payload keys {sorted(p)}")
    c = p["job_context"]
    if c is None:
        ctx = []
    else:
        r = c.get("result_mapping")
        m = c.get("mapping_delta_parameters")
        ctx = [[opt(None if r is None else int(r[1][4:])),
                opt(None if m is None else [opt(m.get("max_samples")), opt(m.get("max_shots"))])]]
    nm = b["job_name"]
    return [int(nm[3:]) if nm.startswith("job") else 0,
            [enc_pval_entry(p, "max_samples"), enc_pval_entry(p, "max_shots"), p.get("tok", 0)], ctx]


def enc_meta(env, md):
    for i, h in enumerate(env.handlers):
        if md == {"headers": h.headers, "platform": h.name, "url": h.url, "proxies": h.proxies}:
            return i
    return -1


def enc_djob(env, d):
    from perceval.runtime import RunningStatus
    return [opt(None if d["id"] is None else int(d["id"][1:])),
            opt(None if d["status"] is None else RunningStatus[d["status"]].value),
            enc_meta(env, d["metadata"]),
            opt(enc_body(d["body"]) if "body" in d else None)]


def enc_job(env, j):
    """[id, status, error counter, image] of a live RemoteJob; the image is computed on a deep copy."""
    try:
        d = [enc_djob(env, copy.deepcopy(j)._to_dict())]
    except TypeError:
        d = []
    return [opt(None if j._id is None else int(j._id[1:])), j._job_status.status.value, j._status_refresh_error, d]


def build_job(env, spec):
    from perceval.runtime import RemoteJob
    name, pay, dcmd, dmap, ctx, meta = spec
    p = {"command": "probs", "tok": pay[2]}
    if pay[0]:
        p["max_samples"] = pay[0][0][0] if pay[0][0] else None
    if pay[1]:
        p["max_shots"] = pay[1][0][0] if pay[1][0] else None
    delta = {"command": {}, "mapping": {}}
    if dcmd:
        delta["command"]["max_samples"] = dcmd[0][0] if dcmd[0] else None
    if dmap:
        a, b = dmap[0]
        delta["mapping"]["max_samples"] = a[0] if a else None
        delta["mapping"]["max_shots"] = b[0] if b else None
    jc = None if not ctx else {"result_mapping": ["perceval.utils", f"conv{ctx[0]}"]}
    return RemoteJob({"platform_name": "sim:x", "payload": p}, env.handlers[meta], f"job{name}",
                     delta_parameters=delta, job_context=jc, command_param_names=["max_samples"])


# ------------------------------------------------------------------ histories
# op: ["reopen"] | ["add", spec, pre, kms(opt), kbad] | ["run", seq] | ["rerun", seq, repl] | ["progress", which]
def enc_op(o):
    k = o[0]
    if k == "reopen":
        return [0]
    if k == "add":
        return [1, o[1], o[2], o[3], o[4]]
    if k == "run":
        return [2, o[1]]
    if k == "rerun":
        return [3, o[1], o[2]]
    if k == "readd":
        return [5, o[1]]
    return [4]


def show_op(o):
    k = o[0]
    if k == "reopen":
        return "g = JobGroup(name)"
    if k == "add":
        name, pay, dcmd, dmap, ctx, meta = o[1]
        kw = ("" if not o[3] else f", max_samples={o[3][0]}") + (", bogus=1" if o[4] else "")
        feats = []
        if pay[0]:
            feats.append(f"payload.max_samples={pay[0][0][0] if pay[0][0] else None}")
        if pay[1]:
            feats.append(f"payload.max_shots={pay[1][0][0] if pay[1][0] else None}")
        if dcmd:
            feats.append(f"delta.command.max_samples={dcmd[0][0] if dcmd[0] else None}")
        if dmap:
            feats.append(f"delta.mapping={dmap[0]}")
        if ctx:
            feats.append(f"job_context=result_mapping:conv{ctx[0]}")
        return (f"j{name} = RemoteJob(handler{meta}; {', '.join(feats) or 'plain'})"
                + ("; j.execute_async() [exceptions swallowed]" if o[2] else "") + f"; g.add(j{name}{kw})")
    if k == "run":
        return "g.run_sequential(0)" if o[1] else "g.run_parallel()"
    if k == "rerun":
        return f"g.rerun_failed_{'sequential(0, ' if o[1] else 'parallel('}replace_failed_jobs={bool(o[2])})"
    if k == "readd":
        return f"g.add(g[{o[1]}])  # only if g[{o[1]}] exists and was sent"
    return ["g.progress()", "g.list_successful_jobs()", "g.list_active_jobs()", "g.list_unsuccessful_jobs()"][o[1]]


def show_answer(a):
    return f"ok(id=J{a[1]}, {ST[a[2]]})" if a[0] == 0 else ("429" if a[0] == 1 else "500")


def show_case(ops, script):
    return {"operations": [show_op(o) for o in ops], "server_script": [show_answer(a) for a in script]}


def impl_step(env, st, o):
    """Runs one operation on the real group. Returns (exception code, value)."""
    import requests
    g = st["g"]
    k = o[0]
    val = None
    try:
        if k == "reopen":
            st["g"] = env.JobGroup(st["name"])
        elif k == "add":
            job = build_job(env, o[1])
            if o[2]:
                try:
                    job.execute_async()
                except Exception:
                    pass
            kw = {}
            if o[3]:
                kw["max_samples"] = o[3][0]
            if o[4]:
                kw["bogus"] = 1
            g.add(job, **kw)
        elif k == "run":
            g.run_sequential(0) if o[1] else g.run_parallel()
        elif k == "readd":
            # the same object: only for a sent job (refusal expected); an unsent one would be Python aliasing
            if o[1] < len(g._jobs) and g._jobs[o[1]].was_sent:
                g.add(g._jobs[o[1]])
        elif k == "rerun":
            if o[1]:
                g.rerun_failed_sequential(0, replace_failed_jobs=bool(o[2]))
            else:
                g.rerun_failed_parallel(replace_failed_jobs=bool(o[2]))
        else:
            w = o[1]
            if w == 0:
                val = g.progress()
            else:
                val = len([g.list_successful_jobs, g.list_active_jobs, g.list_unsuccessful_jobs][w - 1]())
        return 0, val
    except ValueError:
        return 1, None
    except RuntimeError:
        return 2, None
    except TypeError:
        return 3, None
    except (requests.exceptions.HTTPError, requests.exceptions.ConnectionError):
        return 4, None
    except AssertionError:
        return 5, None


def strip_errs(jobs):
    return [[j[0], j[3]] for j in jobs]


def diff_kind(mem, rel):
    """Classifies how the re-opened group differs from memory (both in model normal form, images only)."""
    if len(mem) != len(rel):
        return "length"
    kinds = set()
    for a, b in zip(mem, rel):
        if a == b:
            continue
        if not a[1] or not b[1]:
            kinds.add("unserialisable")
            continue
        da, db = a[1][0], b[1][0]
        if da[0] != db[0]:
            kinds.add("id")
        if da[1] != db[1]:
            kinds.add("status")
        if da[2] != db[2]:
            kinds.add("metadata")
        if da[3] != db[3]:
            if da[3] and db[3] and da[3][0][:2] == db[3][0][:2]:
                kinds.add("job_context")
            elif da[1] == db[1]:
                kinds.add("body")
    return "+".join(sorted(kinds)) or "other"


def opname(o):
    if o[0] == "run":
        return "run_sequential" if o[1] else "run_parallel"
    if o[0] == "rerun":
        return "rerun_failed_sequential" if o[1] else "rerun_failed_parallel"
    return o[0]


def evaluate(env, ops, script, model_out):
    """Runs the history on the implementation, compares with the model after every operation.
    Returns (problems, created) : problems = list of (index, signature, what, expected, observed);
    created = {job name: first create-request body} for the re-open comparison."""
    st = {"name": env.fresh_name()}
    env.script = [list(a) for a in script]
    env.log = []
    problems = []
    created = {}
    path = os.path.join(env.JobGroup._DIR_PATH, st["name"] + ".jgrp")
    st["g"] = env.JobGroup(st["name"])
    diverged = False       # only the operation that introduces a difference is reported
    dup_seen = False
    script_ids = [a[1] for a in script if a[0] == 0]
    try:
        for i, (o, mo) in enumerate(zip(ops, model_out)):
            env.log = []
            env.consumed = 0
            code, val = impl_step(env, st, o)
            g = st["g"]
            m_out, m_mem, m_disk, m_rel, m_log, m_cons, m_dirty, m_prog, m_lists = mo
            where = f"after `{show_op(o)}`"
            if code != m_out:
                sig = (f"duplicate-identifier-accepted-{opname(o)}" if m_out == 1 and code == 0
                       else f"model-outcome-{opname(o)}")
                problems.append((i, sig, f"outcome differs {where}",
                                 EXC.get(m_out, "returns"), EXC.get(code, "returns")))
                break
            for r in env.log:
                if r[0] == 0:
                    created.setdefault(r[1][0], r[1])
            if env.log != m_log:
                problems.append((i, f"model-requests-{opname(o)}", f"requests received by the server / writes of the file differ {where}",
                                 m_log, env.log))
                break
            if env.consumed != m_cons:
                problems.append((i, "model-consumed", f"number of answers consumed differs {where}", m_cons, env.consumed))
                break
            mem = [enc_job(env, j) for j in g._jobs]
            if mem != m_mem:
                problems.append((i, f"model-memory-{opname(o)}", f"in-memory job list differs from the model {where}",
                                 m_mem, mem))
                break
            raw = json.loads(open(path).read())
            dk = [enc_djob(env, d) for d in raw["job_group_data"]]
            if dk != m_disk:
                problems.append((i, f"model-file-{opname(o)}", f"file content differs from the model {where}", m_disk, dk))
                break
            clock = env.clock[0]
            g2 = env.JobGroup(st["name"])
            env.clock[0] = clock
            rel = [enc_job(env, j) for j in g2._jobs]
            if rel != m_rel:
                problems.append((i, f"model-reload-{opname(o)}", f"re-opened group differs from the model {where}", m_rel, rel))
                break
            if code == 0 and o[0] == "progress":
                if o[1] == 0:
                    u, s, ot, a = m_prog
                    exp = {"Total": len(m_mem), "Finished": [s + ot, {"successful": s, "unsuccessful": ot}],
                           "Unfinished": [a + u, {"sent": a, "not sent": u}]}
                    if val != exp:
                        problems.append((i, "model-progress", f"progress() differs from the model {where}", exp, val))
                        break
                    fin, unf = val["Finished"], val["Unfinished"]
                    if not (fin[0] + unf[0] == val["Total"] == len(g._jobs) and sum(fin[1].values()) == fin[0]
                            and sum(unf[1].values()) == unf[0]):
                        problems.append((i, "progress-not-a-partition", f"progress() does not partition the jobs {where}",
                                         len(g._jobs), val))
                elif val != m_lists[o[1] - 1]:
                    problems.append((i, "model-list", f"list size differs from the model {where}", m_lists[o[1] - 1], val))
                    break
            if len(g.list_unsent_jobs()) != m_lists[3]:
                problems.append((i, "model-list-unsent", f"list_unsent_jobs differs {where}", m_lists[3], None))
                break
            # ---- the property itself, on the implementation alone
            a, b = strip_errs(mem), strip_errs(rel)
            if a != b and not diverged:
                diverged = True
                kind = diff_kind(a, b)
                how = "raises-" + EXC[code] if code else "returns"
                if kind == "job_context":
                    sig = "reopened-job_context-lost"
                elif kind == "length" and o[0] == "add" and code == 3:
                    sig = "add-raises-TypeError-after-append"
                else:
                    sig = f"reopened-differs-{kind}-after-{opname(o)}-{how}"
                problems.append((i, sig, f"re-opening the group by name {where} ({how}) does not give the group in memory "
                                 f"[{kind}]; model ghost flag unsaved={m_dirty}", a, b))
            # no identifier twice, in memory or on disk
            for where_ids, idl in (("memory", [j[0][0] for j in mem if j[0]]), ("disk", [d[0][0] for d in dk if d[0]])):
                if len(idl) != len(set(idl)) and len(set(script_ids)) == len(script_ids) and not dup_seen:
                    dup_seen = True
                    problems.append((i, f"identifier-twice-{where_ids}-after-{opname(o)}",
                                     f"the same identifier appears twice in {where_ids} {where} (the server never issued an "
                                     f"identifier twice)", None, idl))
            # accepted identifiers are on disk
            ids_mem = [j[0] for j in mem]
            ids_dk = [d[0] for d in dk]
            if ids_mem != ids_dk and not diverged:
                diverged = True
                problems.append((i, f"ids-lost-{opname(o)}", f"identifiers on disk differ from memory {where}", ids_mem, ids_dk))
    finally:
        try:
            os.remove(path)
        except OSError:
            pass
    return problems, created


# ------------------------------------------------------------------ generators
def plain_spec(rng, name):
    pay = [[], [], rng.rint(1, 9)]
    k = rng.below(6)
    if k == 0:
        pay[1] = [[rng.rint(1, 50)]]
    elif k == 1:
        pay[0], pay[1] = [[rng.rint(1, 50)]], [[rng.rint(1, 50)]]
    elif k == 2:
        pay[0] = [[rng.rint(1, 50)]]
    dcmd = [[rng.rint(1, 50)]] if rng.chance(1, 6) else []
    return [name, pay, dcmd, [], [], rng.below(N_META)]


def sampler_spec(rng, name):
    """The shapes Sampler._create_job produces."""
    s = plain_spec(rng, name)
    s[1][1] = [[rng.rint(1, 50)]]
    k = rng.below(4)
    if k == 0:      # sample_count on a 'samples' platform
        s[2] = [[]]
        s[4] = [rng.rint(1, 3)]
    elif k == 1:    # samples -> probs mapping
        s[3] = [[[], [rng.rint(1, 50)]]]
        s[4] = [rng.rint(1, 3)]
    elif k == 2:
        s[4] = [rng.rint(1, 3)]
    else:
        s[2] = [[rng.rint(1, 50)]]
    return s


def gen_script(rng, n, dup=False):
    sc = []
    nid = 10
    for _ in range(n):
        k = rng.below(12)
        if k == 0:
            sc.append([1])
        elif k == 1:
            sc.append([2])
        else:
            if dup and rng.chance(1, 4) and nid > 10:
                i = rng.rint(10, nid - 1)
            else:
                i = nid
                nid += 1
            sc.append([0, i, rng.choice([0, 1, 2, 2, 3, 3, 4, 5, 6, 7, rng.below(8)])])
    return sc


def gen_history(rng, stream):
    n = rng.rint(2, 8)
    ops = []
    adds = 0
    while len(ops) < n:
        k = rng.below(14)
        if (k < 4 or not ops) and adds < 4:
            adds += 1
            if stream == "plain":
                spec = plain_spec(rng, adds)
                kms, kbad = [], False
                if spec[2] == [] and rng.chance(1, 8):
                    pass
            elif stream == "context":
                spec = sampler_spec(rng, adds) if rng.chance(2, 3) else plain_spec(rng, adds)
                need = (spec[2] == [[]]) or (spec[3] and spec[3][0][0] == [])
                kms, kbad = ([rng.rint(1, 60)] if need else []), False
            else:
                spec = sampler_spec(rng, adds) if rng.chance(1, 2) else plain_spec(rng, adds)
                need = (spec[2] == [[]]) or (spec[3] and spec[3][0][0] == [])
                kms = [rng.rint(1, 60)] if (need and rng.chance(1, 2)) or rng.chance(1, 8) else []
                kbad = rng.chance(1, 8)
                if rng.chance(1, 10):
                    spec[1][0] = [[]]
            ops.append(["add", spec, rng.chance(1, 5), kms, kbad])
        elif k < 5:
            ops.append(["reopen"] if rng.chance(1, 2) else ["readd", rng.below(max(1, adds + 1))])
        elif k < 8:
            ops.append(["run", rng.chance(1, 3)])
        elif k < 11:
            ops.append(["rerun", rng.chance(1, 3), rng.chance(1, 2)])
        else:
            ops.append(["progress", rng.below(4)])
    return ops, gen_script(rng, rng.rint(0, 16), dup=(stream == "malformed"))


ALPHABET = [["add", [1, [[], [], 1], [], [], [], 0], False, [], False],
            ["add", [2, [[], [[5]], 2], [[9]], [], [], 2], True, [], False],
            ["reopen"], ["run", False], ["run", True], ["rerun", False, False], ["rerun", False, True],
            ["rerun", True, True], ["rerun", True, False], ["progress", 0], ["readd", 0], ["readd", 1]]
FIXED_SCRIPTS = [
    [[0, 10, 2], [0, 11, 3], [0, 12, 1], [0, 13, 3], [0, 14, 2], [0, 15, 4], [0, 16, 2], [0, 17, 2], [0, 18, 2], [0, 19, 2]],
    [[0, 10, 3], [2], [0, 11, 1], [0, 12, 3], [1], [0, 13, 2], [0, 14, 3], [0, 15, 2], [2]],
    [[0, 10, 0], [0, 11, 0], [0, 12, 1], [0, 13, 6], [0, 14, 3], [0, 15, 3], [0, 16, 1], [0, 17, 2], [0, 18, 4], [0, 19, 2],
     [0, 20, 2], [0, 21, 2]],
]


# regression guards: witnesses of the defects repaired by bf317fcd (job_context restored on re-open) and 13320b52
# (add validates before the append), and of the still open launch-loop finding
_CTX = [1, [[], [[10]], 1], [], [], [7], 0]
_CTXMAP = [2, [[], [[10]], 2], [], [[[], [20]]], [3], 1]
_UNFILLED = [1, [[], [[10]], 1], [[]], [], [], 0]
CORPUS = [
    ([["add", _CTX, False, [], False], ["reopen"], ["run", False]], [[0, 10, 0]]),
    ([["add", _CTX, False, [], False], ["run", False], ["progress", 0], ["rerun", False, False], ["reopen"], ["progress", 0]],
     [[0, 10, 0], [0, 10, 3], [0, 11, 0], [0, 11, 2], [0, 11, 2]]),
    ([["add", _CTXMAP, False, [25], False], ["reopen"], ["run", True]], [[0, 10, 0], [0, 10, 2]]),
    ([["add", _UNFILLED, False, [], False], ["add", [2, [[], [], 2], [], [], [], 0], False, [], False], ["run", False]],
     [[0, 10, 0]]),
    ([["add", _UNFILLED, False, [5], False], ["run", False]], [[0, 10, 0]]),
    ([["add", [1, [[], [], 1], [], [], [], 0], True, [], False], ["rerun", False, False]], [[0, 10, 0], [0, 11, 0], [0, 12, 1]]),
    ([["add", [1, [[], [], 1], [], [], [], 0], False, [], False], ["run", True]], [[0, 10, 0], [0, 11, 1]]),
    # a sent job of the group added again, whatever gave it its identifier
    ([["add", [1, [[], [], 1], [], [], [], 0], True, [], False], ["readd", 0], ["add", [2, [[], [], 2], [], [], [], 1], False, [], False],
      ["run", False], ["readd", 1], ["progress", 0], ["rerun", False, True], ["readd", 0], ["readd", 1], ["progress", 0],
      ["rerun", True, False], ["readd", 2], ["readd", 3], ["reopen"], ["readd", 2]],
     [[0, 10, 0], [0, 11, 0], [0, 10, 3], [0, 11, 4], [0, 12, 0], [0, 13, 0], [0, 12, 3], [0, 13, 2], [0, 14, 0], [0, 14, 2]]),
]


def with_reopens(ops):
    out = []
    for o in ops:
        if o[0] in ("run", "rerun"):
            out.append(["reopen"])
        out.append(o)
    return out


def is_nontrivial(ops):
    for i, o in enumerate(ops):
        if o[0] in ("run", "rerun") and i + 1 < len(ops) and any(p[0] == "add" for p in ops[:i]):
            return True
    return False


def shrink(ctx, env, ops, script, sig):
    def fails(o2, s2):
        try:
            mo = ctx.model.run([(1900, [[enc_op(o) for o in o2], s2])])[0]
            pr, _ = evaluate(env, o2, s2, mo)
        except Exception:
            return None
        for p in pr:
            if p[1] == sig:
                return p
        return None
    cur_o, cur_s = list(ops), list(script)
    changed = True
    while changed:
        changed = False
        for i in range(len(cur_o) - 1, -1, -1):
            c = cur_o[:i] + cur_o[i + 1:]
            if c and fails(c, cur_s):
                cur_o = c
                changed = True
        for i in range(len(cur_s) - 1, -1, -1):
            c = cur_s[:i] + cur_s[i + 1:]
            if fails(cur_o, c):
                cur_s = c
                changed = True
    return cur_o, cur_s, fails(cur_o, cur_s)


def run(ctx):
    rng = ctx.rng
    env = Env()
    try:
        hist = []      # (stream, ops, script)
        # exhaustive short histories
        L = 3 if ctx.quick() else 4
        words = [[]]
        allw = []
        for _ in range(L):
            words = [w + [a] for w in words for a in range(len(ALPHABET))]
            allw += words
        for w in allw:
            ops = []
            n_add = 0
            for a in w:
                o = copy.deepcopy(ALPHABET[a])
                if o[0] == "add":
                    n_add += 1
                    o[1][0] = n_add
                ops.append(o)
            for sc in (FIXED_SCRIPTS if len(w) < 3 else FIXED_SCRIPTS[:2]):
                hist.append(("exhaustive-short", ops, sc))
        for ops, sc in CORPUS:
            hist.append(("corpus", copy.deepcopy(ops), sc))
        n_ex = len(hist)
        for stream, n in (("plain", ctx.n(1200, 12000)), ("context", ctx.n(500, 5000)), ("malformed", ctx.n(500, 5000))):
            for i in range(n):
                ops, sc = gen_history(rng.fork(f"{stream}{i}"), stream)
                hist.append((stream, ops, sc))
        # every history once more with a re-open before each launch
        pairs = []
        base_n = len(hist)
        for k in range(base_n):
            stream, ops, sc = hist[k]
            if stream == "exhaustive-short" and not ctx.quick() and len(ops) == 4:
                continue
            if any(o[0] in ("run", "rerun") for o in ops):
                pairs.append((k, len(hist)))
                hist.append((stream + "+reopen", with_reopens(ops), sc))
        reqs = [(1900, [[enc_op(o) for o in ops], sc]) for _, ops, sc in hist]
        outs = ctx.model.run(reqs)
        ctx.log(f"{len(hist)} histories ({n_ex} exhaustive-short), model evaluated")
        reported = set()
        created_all = {}
        for k, ((stream, ops, sc), mo) in enumerate(zip(hist, outs)):
            ctx.streams[stream] = ctx.streams.get(stream, 0) + 1
            nt = is_nontrivial(ops)
            ctx.case([[enc_op(o) for o in ops], sc], nt, show_case(ops, sc) if nt and len(ops) >= 4 else None)
            for o in ops:
                ctx.count("op." + opname(o))
            for r in mo:
                ctx.count("outcome." + EXC.get(r[0], "returns"))
                if r[6]:
                    ctx.count("model.unsaved_flag")
            problems, created = evaluate(env, ops, sc, mo)
            created_all[k] = created
            for (i, sig, what, exp, obs) in problems:
                if sig in reported:
                    ctx.fail(sig, what, show_case(ops, sc), exp, obs)
                    continue
                reported.add(sig)
                so, ss, p = shrink(ctx, env, ops, sc, sig)
                if p is None:
                    so, ss, p = ops, sc, (i, sig, what, exp, obs)
                case = show_case(so, ss)
                case["failing_operation_index"] = p[0]
                ctx.fail(sig, p[2], case, p[3], p[4])
        # request bodies: re-opened in between vs not
        for a, b in pairs:
            ca, cb = created_all.get(a, {}), created_all.get(b, {})
            for name in sorted(set(ca) & set(cb)):
                ctx.count("request_pairs_compared")
                if ca[name] != cb[name]:
                    only_ctx = ca[name][:2] == cb[name][:2]
                    sig = "request-differs-after-reopen-" + ("job_context" if only_ctx else "body")
                    stream, ops, sc = hist[a]
                    if sig in reported:
                        ctx.fail(sig, "request differs", show_case(ops, sc), ca[name], cb[name])
                        continue
                    reported.add(sig)
                    ctx.fail(sig, f"the request sent for job{name} differs when the group is re-opened before the launch",
                             show_case(ops, sc), ca[name], cb[name])
        # extraction vs vm_compute on a small sample
        sample = reqs[n_ex:n_ex + (3 if ctx.quick() else 25)]
        x = ctx.model.run(sample)
        y = ctx.model.vm_crosscheck(sample, "c19")
        ctx.count("vm_compute_crosscheck", len(sample))
        if x != y:
            ctx.fail("extraction-vs-vm_compute", "extracted runner and vm_compute disagree", {"n": len(sample)})
    finally:
        env.close()


def replay(ctx, case):
    print(json.dumps(case, indent=1))
