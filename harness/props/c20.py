"""C20 — catalog gates and converted gate circuits implement their logical operation."""
from __future__ import annotations
import cmath
import math
import re
from fractions import Fraction

from ..common import QI, Ang, rand_ang, un_q, un_qi, un_mat, mat_close, close

LEVEL = "proof"
RULE = ("part 1 (complete comparison of constants): every fixed catalog gate (h x y z s sdag t tdag, postprocessed "
        "cz/cnot, heralded cz/cnot, klm cnot) — the tower model's unitary, evaluated numerically through the tower's "
        "defining elements, vs build_circuit().compute_unitary(), heralds, post-selection, ports; the model's logical "
        "amplitudes vs f*G and vs the implementation's own SLOS amplitudes; rx/ry/rz/ph at Pythagorean angles; "
        "postprocessed ccz, toffoli and the n-qubit controlled rotation (n=2,3,4, several alpha) judged per instance on "
        "the implementation's matrix read on a 2^-40 grid (logical amplitudes by the exact amp_num, leakage enumerated). "
        "part 2 (translation validation): random source circuits for Qiskit, myQLM, cQASM (2-4 qubits, <= 8 gates, "
        "two-qubit gates on arbitrary ordered pairs incl. non-adjacent and control above target, one-qubit gates outside "
        "the catalog covering every template of the generic conversion (identity, phase on either rail, two phases, "
        "dense; random 2x2 unitaries through qiskit `unitary` / myQLM AbstractGate, u, r, sx, sxdg, id), both use_postselection "
        "values): the converted processor's unitary on a 2^-40 grid with its heralds and post-selection goes through "
        "the exact amp_num; every logical state must pass heralds+post-selection, the amplitude matrix must equal the "
        "source unitary (own gate-list simulator; qiskit's Operator as second oracle) up to one complex factor, and "
        "(small cases) no non-logical passing output may carry amplitude. Non-trivial: at least one two-qubit gate or "
        "a non-diagonal one-qubit gate; distinct by gate list + flags. Half of the circuits of a framework are converted by "
        "ONE converter object reused across the run (multi-parameter gates outside the catalog — u, r, U2Gate, U3Gate, a "
        "3-parameter myQLM AbstractGate — then share some but not all parameters with earlier gates of the same name: "
        "same first angle, same prefix, same values in another order), the others by fresh objects; a failure that a "
        "fresh object does not show is shrunk over (earlier conversions, circuit). Catalog histories: every gate item "
        "is built, what was built is modified in place (inverse h/v, parameters, added component, through circuit, "
        "leaves and processor), and built again: the new build must have the model's unitary and share no component "
        "object with another build. Two-qubit-gate skeletons, SYSTEMATIC (not random): every sequence of up to 3 directed "
        "CNOT pairs on <= 4 qubits up to qubit renaming (82: chains, stars, triangles, back-and-forth and repeated "
        "pairs), every sequence of up to 2 gates over CNOT/CZ/SWAP (30 with a CZ or SWAP) and 3-gate sequences on 3 "
        "qubits with exactly one CZ or SWAP (quick: half of them, moving with the seed), each dressed with h/t/rx/ry so "
        "that the unitary is not a permutation; CNOT-only skeletons with post-selection go through ALL front ends, the "
        "others through one front end rotating with the seed (thorough: full product); all-heralded conversions beyond "
        "7 photons are deferred to the thorough tier; the exact-model requests are cost-bounded and sent as one "
        "parallel batch. Source languages: cQASM programs written with the language's addressing forms (ranges, "
        "lists, single-gate-multiple-qubit statements for one- and two-qubit gates with equal, single and mismatched "
        "operand lengths, several registers and single-qubit variables, v3/v1/unsupported/missing version headers, "
        "`qubits n`, comments, prep/measure lines, parameter expressions), Qiskit circuits using multi-target calls, "
        "barriers, measure/reset, two registers and gates outside the supported set, myQLM controlled/three-qubit gates, "
        "measure, reset; the oracle is the language semantics (pairwise application; qiskit's Operator), the verdict "
        "'a refusal, or a processor on the same qubits proportional to the reference' — a silently different circuit "
        "fails; refusals are counted by exception type. Every exact request is cost-bounded before it is "
        "sent (4^q n! n per request, total budget, runner timeout, wall-clock deadline); circuits beyond the bound go "
        "through the implementation's SLOS amplitudes instead (conv.route=slos) or are skipped (conv.route=skipped).")
TRUSTED = ["model: coq/Model/Catalog.v, CatalogX.v, coq/Lib/Quad.v (hand-written component lists; tied by the complete "
           "constant comparison of this stream)",
           "numeric evaluation of tower elements in the driver (ring homomorphism into C: generator j = positive square "
           "root of the value of the j-th defining element, itself evaluated from the model's export)",
           "source-circuit semantics: the driver's gate-list simulator (checked against qiskit.quantum_info.Operator)",
           "real-number axioms of Coq.Reals for the four *_real theorems only"]
ASSUMPTIONS = ["floating-point rounding not modelled: implementation matrices are read as exact dyadic rationals on a "
               "2^-40 grid; comparison tolerance 1e-9 for constants, 1e-7 relative for converted circuits",
               "converters: per-instance validation, no general theorem (composition of post-processed gates is not "
               "modular); one-qubit gates outside the catalog (qiskit unitary/u/r/sx/sxdg/id, myQLM AbstractGate/I) are "
               "fitted by the converter's optimiser (random restarts, not reproducible from the seed): circuits "
               "containing k of them are judged with relative tolerance k * 1e-4 (the converter's own min_precision_gate)",
               "perm(I + a J_n) = 1 + a^n on the dual-rail basis is proved for every n >= 2 (C20_crot_all_n) for the data block "
               "blockdiag(I, I + aJ); that the implementation's block is this one up to sigma_max is checked per instance (n = 2, 3, 4)"]
EXPLANATION = ("Two converter defects found by this check are repaired in /repo (c0ab6b50: post-selection transfer for "
               "non-monotone mode maps in Experiment._compose_experiment; 8dc2ac38: no post-processed CNOT when CZ/CSIGN/SWAP "
               "gates are present); their witnesses stay in the corpus as regression guards. Every exact-model request is "
               "bounded beforehand (4^q n! n); larger converted circuits are checked per instance with the implementation's "
               "own SLOS amplitudes (histogram conv.route=slos) or skipped (conv.route=skipped).")

K40 = 1 << 40
FIXED = [("h", 0), ("x", 1), ("y", 2), ("z", 3), ("s", 4), ("sdag", 5), ("t", 6), ("tdag", 7),
         ("postprocessed cz", 8), ("postprocessed cnot", 9), ("heralded cz", 10), ("heralded cnot", 11), ("klm cnot", 12)]


# ------------------------------------------------------------------ helpers
def tower_eval(gens_flat):
    """Numeric values of the tower generators from their defining elements (innermost first)."""
    g = []
    for d in gens_flat:
        v = flat_eval(d, g)
        assert abs(v.imag) < 1e-12 and v.real > 0
        g.append(math.sqrt(v.real))
    return g


def flat_eval(coefs, g):
    """sum coef[idx] * prod_{j: bit j of idx} g[j]; the most significant bit is the outermost generator."""
    k = len(coefs).bit_length() - 1
    assert len(coefs) == 1 << k and k <= len(g)
    tot = 0j
    for idx, c in enumerate(coefs):
        z = un_qi(c)
        if z == 0:
            continue
        for j in range(k):
            if (idx >> j) & 1:
                z *= g[j]
        tot += z
    return tot


def grid(U):
    """complex matrix -> Gaussian integers on the 2^-40 grid."""
    return [[[int(round(float(z.real) * K40)), int(round(float(z.imag) * K40))] for z in row] for row in U]


def ungrid(a, n):
    s = K40 ** n
    return complex(a[0] / s, a[1] / s)


def ps_tree(s):
    """Parse str(PostSelect) into the model's tree; fail closed."""
    s = (s or "").strip()
    if not s or s == "None":
        return [0]
    toks = re.findall(r"\[[\d,\s]*\]|==|!=|<=|>=|<|>|&|\||\^|!|\(|\)|\d+|\S", s)
    pos = 0

    def term():
        nonlocal pos
        t = toks[pos]
        if t == "(":
            pos += 1
            e = expr()
            assert toks[pos] == ")", s
            pos += 1
            return e
        if t == "!":
            pos += 1
            return [5, term()]
        assert t.startswith("["), s
        modes = [int(x) for x in re.findall(r"\d+", t)]
        op = {"==": 0, "!=": 1, "<": 2, ">": 3, "<=": 4, ">=": 5}[toks[pos + 1]]
        k = int(toks[pos + 2])
        pos += 3
        return [1, modes, op, k]

    def expr():
        nonlocal pos
        e = term()
        while pos < len(toks) and toks[pos] in "&|^":
            code = {"&": 2, "|": 3, "^": 4}[toks[pos]]
            pos += 1
            e = [code, e, term()]
        return e

    e = expr()
    assert pos == len(toks), s
    return e


def ps_flat(tree):
    """canonical form of a conjunction of comparisons (sorted), for comparison of declarations."""
    if tree == [0]:
        return []
    if tree[0] == 1:
        return [(tuple(tree[1]), tree[2], tree[3])]
    assert tree[0] == 2
    return sorted(ps_flat(tree[1]) + ps_flat(tree[2]))


def proportional(A, U, tol):
    """A = lam * U for one complex lam != 0?  returns (ok, lam, deviation of A/lam from U)."""
    num = sum((U[i][j].conjugate() * A[i][j]) for i in range(len(U)) for j in range(len(U)))
    den = sum(abs(U[i][j]) ** 2 for i in range(len(U)) for j in range(len(U)))
    lam = num / den
    if abs(lam) < 1e-9:
        return False, lam, float("inf")
    dev = max(abs(A[i][j] / lam - U[i][j]) for i in range(len(U)) for j in range(len(U)))
    return dev <= tol, lam, dev


def model_logical(ctx, items, leak, timeout=600):
    """items: (m, U complex, heralds dict, ps tree, q) -> [(A[b'][b] complex, passes list, leaks)].
    Raises subprocess.TimeoutExpired when the runner exceeds `timeout` seconds (callers bound the cost beforehand)."""
    reqs = []
    for m, U, her, pst, q in items:
        reqs.append((2001, [m, grid(U), [[k, v] for k, v in sorted(her.items())], pst, q, 1 if leak else 0]))
    outs = ctx.model.run(reqs, timeout=timeout)
    res = []
    for (m, U, her, pst, q), out in zip(items, outs):
        n = q + sum(her.values())
        N = 1 << q
        A = [[ungrid(out[0][b][b2], n) for b in range(N)] for b2 in range(N)]      # A[b'][b]
        leaks = [(e[0], e[1], ungrid(e[2], n)) for e in out[1]]
        res.append((A, [bool(x) for x in out[2]], leaks))
    return res


def impl_logical(U, m, q, her):
    """the implementation's own amplitudes between logical states (SLOS on its unitary)."""
    import perceval as pcvl
    from perceval.utils import BasicState
    be = pcvl.BackendFactory.get_backend("SLOS")
    be.set_circuit(pcvl.Unitary(pcvl.Matrix(U)))

    def st(b):
        s = [0] * m
        for i in range(q):
            s[2 * i + ((b >> (q - 1 - i)) & 1)] = 1
        for k, v in her.items():
            s[k] = v
        return BasicState(s)
    N = 1 << q
    A = [[0j] * N for _ in range(N)]
    for b in range(N):
        be.set_input_state(st(b))
        for b2 in range(N):
            A[b2][b] = complex(be.prob_amplitude(st(b2)))
    return A


def np_rows(M):
    return [[complex(x) for x in row] for row in M.tolist()]


# ------------------------------------------------------------------ source-circuit semantics (big-endian: qubit 0 = MSB)
def cplx_rows(M):
    return [[complex(z[0], z[1]) for z in row] for row in M]


def gate_matrix(name, par):
    r = 1 / math.sqrt(2)
    if name == "u2":            # arbitrary one-qubit unitary, par = [[[re, im], [re, im]], [[re, im], [re, im]]]
        return cplx_rows(par)
    if name == "id":
        return [[1, 0], [0, 1]]
    if name in ("sx", "sxdg"):
        a, b = (0.5 + 0.5j, 0.5 - 0.5j) if name == "sx" else (0.5 - 0.5j, 0.5 + 0.5j)
        return [[a, b], [b, a]]
    if name == "qu2":           # qiskit U2Gate(phi, lam) = U(pi/2, phi, lam)
        name, par = "u", [math.pi / 2] + list(par)
    if name in ("u", "qu3", "ug"):      # qiskit U / U3Gate (theta, phi, lam); myQLM AbstractGate UG with the same matrix
        th, ph, lm = par
        return [[math.cos(th / 2), -cmath.exp(1j * lm) * math.sin(th / 2)],
                [cmath.exp(1j * ph) * math.sin(th / 2), cmath.exp(1j * (ph + lm)) * math.cos(th / 2)]]
    if name == "r":             # qiskit R(theta, phi)
        th, ph = par
        return [[math.cos(th / 2), -1j * cmath.exp(-1j * ph) * math.sin(th / 2)],
                [-1j * cmath.exp(1j * ph) * math.sin(th / 2), math.cos(th / 2)]]
    c, s = (math.cos(par / 2), math.sin(par / 2)) if par is not None else (None, None)
    return {
        "h": lambda: [[r, r], [r, -r]], "x": lambda: [[0, 1], [1, 0]], "y": lambda: [[0, -1j], [1j, 0]],
        "z": lambda: [[1, 0], [0, -1]], "s": lambda: [[1, 0], [0, 1j]], "sdg": lambda: [[1, 0], [0, -1j]],
        "t": lambda: [[1, 0], [0, cmath.exp(1j * math.pi / 4)]], "tdg": lambda: [[1, 0], [0, cmath.exp(-1j * math.pi / 4)]],
        "rx": lambda: [[c, -1j * s], [-1j * s, c]], "ry": lambda: [[c, -s], [s, c]],
        "rz": lambda: [[cmath.exp(-1j * par / 2), 0], [0, cmath.exp(1j * par / 2)]],
        "p": lambda: [[1, 0], [0, cmath.exp(1j * par)]],
    }[name]()


def src_unitary(nq, gates):
    import numpy as np
    N = 1 << nq
    U = np.eye(N, dtype=complex)
    for name, qs, par in gates:
        G = np.zeros((N, N), dtype=complex)
        if name == "mat":       # k-qubit matrix par on the qubits qs (qs[0] = most significant bit of the matrix index)
            k = len(qs)
            M = np.array(par, dtype=complex)
            sh = [nq - 1 - q for q in qs]
            for b in range(N):
                v = sum((((b >> sh[i]) & 1) << (k - 1 - i)) for i in range(k))
                rest = b
                for x in sh:
                    rest &= ~(1 << x)
                for v2 in range(1 << k):
                    b2 = rest | sum((((v2 >> (k - 1 - i)) & 1) << sh[i]) for i in range(k))
                    G[b2, b] += M[v2, v]
        elif len(qs) == 1:
            g = gate_matrix(name, par)
            sh = nq - 1 - qs[0]
            for b in range(N):
                v = (b >> sh) & 1
                for v2 in (0, 1):
                    G[(b & ~(1 << sh)) | (v2 << sh), b] += g[v2][v]
        else:
            sa, sb = nq - 1 - qs[0], nq - 1 - qs[1]
            for b in range(N):
                va, vb = (b >> sa) & 1, (b >> sb) & 1
                if name == "cx":
                    G[b ^ (va << sb), b] = 1
                elif name == "cz":
                    G[b, b] = -1 if (va and vb) else 1
                else:   # swap
                    b2 = (b & ~(1 << sa) & ~(1 << sb)) | (vb << sa) | (va << sb)
                    G[b2, b] = 1
        U = G @ U
    return U


ONE_Q = {"qiskit": ["h", "x", "y", "z", "s", "sdg", "t", "tdg", "rx", "ry", "rz", "p"],
         "myqlm": ["h", "x", "y", "z", "s", "t", "rx", "ry", "rz", "p"],
         "cqasm": ["h", "x", "y", "z", "s", "sdg", "t", "tdg", "rx", "ry", "rz", "x90", "mx90", "y90", "my90"]}
TWO_Q = {"qiskit": ["cx", "cz", "swap"], "myqlm": ["cx", "cz", "swap"], "cqasm": ["cx", "cz"]}
PARAM = {"rx", "ry", "rz", "p"}
# one-qubit gates that are NOT catalog gates: the converter fits a template to their matrix
# (_create_generic_1_qubit_gate: identity / phase on rail 1 / phase on rail 0 / two phases / generic two-mode circuit)
GENERIC = {"qiskit": ["u2", "u2", "u2", "sx", "sxdg", "u", "u", "r", "r", "qu2", "qu3", "id"],
           "myqlm": ["u2", "u2", "u2", "ug", "ug", "id"], "cqasm": []}
GENERIC_NAMES = {"u2", "sx", "sxdg", "u", "r", "qu2", "qu3", "ug", "id"}
# non-catalog gates with SEVERAL parameters (the converters' gate sequence carries the first one only)
MULTI = {"u": 3, "qu3": 3, "ug": 3, "r": 2, "qu2": 2}
ANGLE_POOL = [0.0, math.pi / 2, -math.pi / 2, math.pi, math.pi / 4, -math.pi / 4, 0.3, 1.1, -0.7, 2.0]


def rand_multi_params(rng, name, earlier):
    """parameters of a multi-parameter generic gate; `earlier` = parameter lists of gates of the same name already
    used by the same converter object (this circuit and the previous ones of the session): with probability 2/3 the new
    gate SHARES some but not all of them (same first angle with other angles changed, same prefix, same angles in
    another order), or repeats them exactly"""
    k = MULTI[name]
    fresh = lambda: rng.choice(ANGLE_POOL) if rng.chance(2, 3) else rng.rint(-3000, 3000) / 1000.0
    if earlier and rng.chance(2, 3):
        base = list(rng.choice(earlier))
        mode = rng.below(5)
        if mode == 0:                       # same first parameter, the others re-drawn
            return [base[0]] + [fresh() for _ in range(k - 1)]
        if mode == 1:                       # same prefix, last parameter re-drawn
            return base[:-1] + [fresh()]
        if mode == 2:                       # same values in another order
            return base[1:] + base[:1]
        if mode == 3:
            return base[::-1]
        return base                         # exact repetition
    return [fresh() for _ in range(k)]

BRANCHES = ["identity", "upper-phase", "lower-phase", "two-phases", "two-phases-equal", "dense", "dense-near-diagonal"]
# tolerance per optimiser-fitted gate: the converter declares gate matrices known to min_precision_gate = 1e-4 and its
# optimiser stops at a Frobenius distance of 1e-6; measured on the unchanged code: median 3e-9, but about one fit in 40
# of the single-phase templates ends at 4e-6 .. 1.4e-5 (random restarts), so 1e-6 would raise false alarms
FIT_TOL = 1e-4


def rand_phase(rng):
    """a phase well away from 0 mod 2 pi (the converter's template choice has a 1e-4 threshold)"""
    while True:
        a = rng.rint(-3100, 3100) / 1000.0
        if abs(a) >= 0.05:
            return a


def rand_u2(rng, kind=None):
    kind = kind or rng.choice(BRANCHES)
    e = lambda a: cmath.exp(1j * a)
    if kind == "identity":
        M = [[1, 0], [0, 1]]
    elif kind == "upper-phase":
        M = [[1, 0], [0, e(rand_phase(rng))]]
    elif kind == "lower-phase":
        M = [[e(rand_phase(rng)), 0], [0, 1]]
    elif kind == "two-phases":
        a = rand_phase(rng)
        b = rand_phase(rng)
        while abs(b - a) < 0.05:
            b = rand_phase(rng)
        M = [[e(a), 0], [0, e(b)]]
    elif kind == "two-phases-equal":
        a = rand_phase(rng)
        M = [[e(a), 0], [0, e(a)]]
    else:
        t = rng.rint(30, 3000) / 1000.0 if kind == "dense" else rng.rint(10, 60) / 1000.0
        g, a, b = rand_phase(rng), rand_phase(rng), rand_phase(rng)
        c, s_ = math.cos(t / 2), math.sin(t / 2)
        M = [[e(g + a + b) * c, -e(g + a - b) * s_], [e(g - a + b) * s_, e(g - a - b) * c]]
    return [[[complex(z).real, complex(z).imag] for z in row] for row in M]


def generic_branch(name, par):
    """which template the converter is expected to choose (its thresholds), for signatures and the histogram"""
    u = [[complex(z) for z in row] for row in gate_matrix(name, par)]
    eps = 1e-4
    if abs(u[1][0]) + abs(u[0][1]) < 2 * eps:
        if abs(u[0][0] - 1) < eps:
            return "identity" if abs(u[1][1] - 1) < eps else "upper-phase"
        return "lower-phase" if abs(u[1][1] - 1) < eps else "two-phases"
    return "dense"

NAMED_ROT = {"x90": ("rx", math.pi / 2), "mx90": ("rx", -math.pi / 2), "y90": ("ry", math.pi / 2), "my90": ("ry", -math.pi / 2)}


def canon_gates(gates):
    """named rotations -> (rx/ry, angle) for the source semantics."""
    out = []
    for name, qs, par in gates:
        if name in NAMED_ROT:
            name, par = NAMED_ROT[name]
        out.append((name, qs, par))
    return out


def rand_circuit(rng, fw, nq, ngates, max2, session=None):
    """session: {gate name: [parameter lists]} of the multi-parameter generic gates the converter object has seen"""
    gates, n2 = [], 0
    session = session if session is not None else {}
    for _ in range(ngates):
        if nq >= 2 and n2 < max2 and rng.chance(2, 5):
            a = rng.below(nq)
            b = (a + 1 + rng.below(nq - 1)) % nq
            gates.append((rng.choice(TWO_Q[fw]), [a, b], None))
            n2 += 1
        elif GENERIC[fw] and rng.chance(1, 4):
            name = rng.choice(GENERIC[fw])
            par = None
            if name == "u2":
                par = rand_u2(rng)
            elif name in MULTI:
                par = rand_multi_params(rng, name, session.get(name, []))
                session.setdefault(name, []).append(par)
            gates.append((name, [rng.below(nq)], par))
        else:
            name = rng.choice(ONE_Q[fw])
            par = None
            if name in PARAM:
                par = rng.rint(-3000, 3000) / 1000.0
            gates.append((name, [rng.below(nq)], par))
    return gates


def build_source(fw, nq, gates):
    if fw == "qiskit":
        from qiskit import QuantumCircuit
        qc = QuantumCircuit(nq)
        import numpy as np
        for name, qs, par in gates:
            if name == "u2":
                qc.unitary(np.array(cplx_rows(par)), qs[0])
                continue
            if name in ("qu2", "qu3"):
                from qiskit.circuit.library import U2Gate, U3Gate
                qc.append((U2Gate if name == "qu2" else U3Gate)(*par), [qs[0]])
                continue
            args = (list(par) if isinstance(par, list) else [par] if par is not None else []) + qs
            getattr(qc, name)(*args)
        return qc
    if fw == "myqlm":
        import numpy as np
        from qat.lang.AQASM import Program, H, X, Y, Z, S, T, RX, RY, RZ, PH, CNOT, CSIGN, SWAP, I as QI_, AbstractGate
        tab = {"h": H, "x": X, "y": Y, "z": Z, "s": S, "t": T, "cx": CNOT, "cz": CSIGN, "swap": SWAP, "id": QI_}
        ptab = {"rx": RX, "ry": RY, "rz": RZ, "p": PH}
        pr = Program()
        q = pr.qalloc(nq)
        for k, (name, qs, par) in enumerate(gates):
            if name == "u2":
                M = np.array(cplx_rows(par))
                g = AbstractGate(f"G{k}", [], arity=1, matrix_generator=lambda M=M: M)()
            elif name == "ug":
                g = AbstractGate("UG", [float, float, float], arity=1,
                                 matrix_generator=lambda a, b, c: np.array(gate_matrix("u", [a, b, c])))(*[float(x) for x in par])
            else:
                g = ptab[name](par) if name in ptab else tab[name]
            pr.apply(g, *[q[i] for i in qs])
        return pr.to_circ()
    tab = {"h": "H", "x": "X", "y": "Y", "z": "Z", "s": "S", "sdg": "Sdag", "t": "T", "tdg": "Tdag", "rx": "Rx", "ry": "Ry",
           "rz": "Rz", "x90": "X90", "mx90": "mX90", "y90": "Y90", "my90": "mY90", "cx": "CNOT", "cz": "CZ"}
    lines = ["version 3.0", f"qubit[{nq}] q"]
    for name, qs, par in gates:
        ops = ", ".join(f"q[{i}]" for i in qs)
        lines.append(f"{tab[name]}({par!r}) {ops}" if par is not None else f"{tab[name]} {ops}")
    return "\n".join(lines) + "\n"


def new_converter(fw):
    from perceval.converters import QiskitConverter, MyQLMConverter, CQASMConverter
    return {"qiskit": QiskitConverter, "myqlm": MyQLMConverter, "cqasm": CQASMConverter}[fw]()


def convert(fw, src, ups, conv=None):
    """conv: a converter object that already converted other circuits (None = a fresh one)"""
    return (conv or new_converter(fw)).convert(src, use_postselection=ups)


def cost(q, n):
    """work of the exact logical amplitude matrix: 4^q permanents of size n by Laplace expansion (n! n products of
    integers that grow to 40 n bits).  Calibration: about 2.5e5 units per second in the extracted runner."""
    return (4 ** q) * math.factorial(n) * n


class Budget:
    """cost accounting of the exact-model requests of one run: one request may not exceed `per_request`, all
    requests together may not exceed `total`; what does not fit is routed to the cheaper per-instance check."""

    def __init__(self, per_request, total, timeout, deadline=None):
        self.per_request, self.total, self.timeout, self.spent = per_request, total, timeout, 0.0
        self.deadline = deadline        # time.time() after which no exact request is sent any more (loaded machine)

    def take(self, c):
        import time
        if c > self.per_request or self.spent + c > self.total:
            return False
        if self.deadline is not None and time.time() > self.deadline:
            return False
        self.spent += c
        return True


SHRINK_BUDGET = Budget(3e6, float("inf"), 60)


def slos_feasible(m, n):
    return n <= 10 and math.comb(m + n - 1, n) <= 400000


def evaluate(ctx, fw, nq, gates, ups, leak_budget=2e5, budget=None, conv=None):
    """-> (signature or None, details). Runs the real converter, then [judge]: the logical action goes through the exact model when
    the request fits the budget (bounded BEFORE it is sent, from qubits and photons), otherwise through the cheaper
    per-instance route: model for the heralds/post-selection of logical states, the implementation's own SLOS
    amplitudes for the matrix (counted in the histogram), or is skipped when even that is too large."""
    src = build_source(fw, nq, gates)
    try:
        p = convert(fw, src, ups, conv)
    except Exception as e:
        return f"converter-exception-{fw}-{type(e).__name__}", {"error": repr(e)[:300]}
    return judge(ctx, fw, nq, gates, ups, p, leak_budget, budget)


def judge(ctx, fw, nq, gates, ups, p, leak_budget=2e5, budget=None, Us=None, pre=None):
    """verdict on a converted processor p: every logical state passes heralds and post-selection and the logical
    amplitude matrix is proportional to the reference unitary (Us, default: the unitary of the gate list)."""
    import subprocess
    import numpy as np
    budget = budget or SHRINK_BUDGET
    m = p.circuit_size
    her = {int(k): int(v) for k, v in p.heralds.items()}
    pst_s = str(p.post_select_fn) if p.post_select_fn is not None else ""
    pst = ps_tree(pst_s)
    U = np_rows(p.linear_circuit().compute_unitary())
    n = nq + sum(her.values())
    if any(k < 2 * nq for k in her):
        return f"converter-herald-on-data-mode-{fw}", {"heralds": her}
    info = {"m": m, "heralds": her, "postselect": pst_s, "photons": n}
    c = cost(nq, n)
    A = passes = None
    leaks = []
    if pre is not None:         # answer of a batched exact-model request (see skeleton_stream)
        A, passes, leaks = pre
        info["route"], info["leak_checked"] = "exact", False
    elif budget.take(c):
        nonlog = math.comb(2 * nq + nq - 1, nq) - (1 << nq)
        leak = (1 << nq) * nonlog * math.factorial(n) * n <= leak_budget
        try:
            (A, passes, leaks), = model_logical(ctx, [(m, U, her, pst, nq)], leak, timeout=budget.timeout)
            info["route"], info["leak_checked"] = "exact", leak
        except subprocess.TimeoutExpired:
            # a harness limitation, not a verdict on the implementation
            ctx.count("conv.model-timeout")
            ctx.notes.append(f"model request timed out after {budget.timeout}s (q={nq}, photons={n}); routed to the SLOS check")
    if A is None:
        passes = [bool(x) for x in ctx.model.run([(2004, [m, [[k, v] for k, v in sorted(her.items())], pst, nq])], timeout=60)[0]]
        if slos_feasible(m, n):
            A = impl_logical(np.array(U), m, nq, her)
            info["route"], info["leak_checked"] = "slos", False
        else:
            info["route"] = "skipped"
    ctx.count("conv.route=" + info["route"])
    if Us is None:
        Us = src_unitary(nq, canon_gates(gates)).tolist()
    has_far_cx = any(nm == "cx" and (qs[1] != qs[0] + 1) for nm, qs, _ in gates)
    if not all(passes):
        info["logical_states_rejected"] = [b for b, ok in enumerate(passes) if not ok]
        sig = "converter-postselect-remap-nonmonotone" if (ups and has_far_cx) else f"converter-postselect-rejects-logical-{fw}"
        return sig, info
    if A is None:
        return None, info
    fitted = sorted({generic_branch(nm, par) for nm, _, par in gates if nm in GENERIC_NAMES})
    n_fit = sum(1 for nm, _, _ in gates if nm in GENERIC_NAMES)
    tol = FIT_TOL * n_fit if fitted else (1e-7 if info["route"] == "exact" else 1e-6)
    ok, lam, dev = proportional(A, Us, tol)
    info["factor"] = abs(lam)
    info["deviation"] = dev
    if not ok:
        # root-cause attribution of the (repaired) finding: the choice of post-processed CNOTs looked at CNOT pairs only;
        # claimed only when the circuit has a CNOT plus a CZ or SWAP and its all-heralded conversion is right
        names = {nm for nm, _, _ in gates}
        sig = f"converter-logical-action-{fw}"
        if fitted:      # a one-qubit gate outside the catalog is present: name the template(s) involved
            sig = "converter-generic-1q-gate-" + "+".join(fitted)
        elif ups and "cx" in names and (names & {"cz", "swap"}):
            if heralded_conversion_ok(fw, nq, gates, Us):
                sig = "converter-postprocessed-cnot-with-cz-or-swap"
        return sig, info
    big = [(b, t, abs(a)) for b, t, a in leaks if abs(a) > 1e-7 * abs(lam)]
    if big:
        info["leaks"] = big[:4]
        return f"converter-leakage-{fw}", info
    return None, info


def heralded_conversion_ok(fw, nq, gates, Us):
    """attribution helper (not a verdict): is the all-heralded conversion of the same circuit right?  Uses the
    implementation's own SLOS amplitudes (the exact model would need the permanent of up to 2 ancilla photons per gate)."""
    import numpy as np
    try:
        p = convert(fw, build_source(fw, nq, gates), False)
        her = {int(k): int(v) for k, v in p.heralds.items()}
        if not slos_feasible(p.circuit_size, nq + sum(her.values())):
            return False
        A = impl_logical(np.array(p.linear_circuit().compute_unitary()), p.circuit_size, nq, her)
        return proportional(A, Us, 1e-6)[0]
    except Exception:
        return False


def shrink(ctx, fw, nq, gates, ups, sig, max_evals=40):
    gates = list(gates)
    changed, evals = True, 0
    while changed and len(gates) > 1 and evals < max_evals:
        changed = False
        for i in range(len(gates)):
            g2 = gates[:i] + gates[i + 1:]
            evals += 1
            try:
                s2, _ = evaluate(ctx, fw, nq, g2, ups, leak_budget=0)
            except Exception:
                continue
            if s2 == sig:
                gates, changed = g2, True
                break
    return gates


def fails_after(ctx, fw, history, nq, gates, ups):
    """does a NEW converter object that first converts the circuits of `history` convert (nq, gates) wrongly?"""
    conv = new_converter(fw)
    for hq, hg, hu in history:
        try:
            conv.convert(build_source(fw, hq, hg), use_postselection=hu)
        except Exception:
            pass
    return evaluate(ctx, fw, nq, gates, ups, leak_budget=0, conv=conv)[0] is not None


def shrink_history(ctx, fw, history, nq, gates, ups, max_evals=60):
    """smallest (earlier circuits, circuit) such that the circuit is converted wrongly only after the earlier ones"""
    evals = 0
    hist = list(history)
    names = {nm for nm, _, _ in gates if nm in GENERIC_NAMES}
    order = sorted(range(len(hist)), key=lambda i: (not (names & {nm for nm, _, _ in hist[i][1]}), -i))
    for i in order[:25]:
        evals += 1
        if fails_after(ctx, fw, [hist[i]], nq, gates, ups):
            hist = [hist[i]]
            break
    else:
        if not fails_after(ctx, fw, hist, nq, gates, ups):
            return None, gates            # not reproducible from the conversions alone
    gates = list(gates)
    changed = True
    while changed and evals < max_evals:
        changed = False
        for k in range(len(hist)):
            hq, hg, hu = hist[k]
            for i in range(len(hg)):
                if len(hg) <= 1:
                    break
                evals += 1
                h2 = hist[:k] + [(hq, hg[:i] + hg[i + 1:], hu)] + hist[k + 1:]
                if fails_after(ctx, fw, h2, nq, gates, ups):
                    hist, changed = h2, True
                    break
            if changed:
                break
        if changed:
            continue
        for i in range(len(gates)):
            if len(gates) <= 1:
                break
            evals += 1
            g2 = gates[:i] + gates[i + 1:]
            if fails_after(ctx, fw, hist, nq, g2, ups) and evaluate(ctx, fw, nq, g2, ups, leak_budget=0)[0] is None:
                gates, changed = g2, True
                break
    return hist, gates


# ------------------------------------------------------------------ catalog histories: build, modify in place, build again
INPLACE_OPS = ["circuit.inverse(h)", "circuit.inverse(v)", "circuit.parameters+0.37", "circuit.add(PS)", "leaves.inverse(h)",
               "processor.components.inverse(h)", "processor.components.parameters+0.37", "processor.add(PS)"]


def circuit_leaves(c):
    return [comp for _, comp in c]


def bump_parameters(circ):
    n = 0
    for comp in circuit_leaves(circ):
        for prm in comp.get_parameters(all_params=True):
            try:
                prm.set_value(float(prm) + 0.37)
                n += 1
            except Exception:
                pass
    return n


def modify_in_place(item, kw, op):
    """build the item and modify what was built, in place; returns the modified objects (kept alive for identity checks)"""
    from perceval.components import PS
    if op.startswith("processor") :
        p = item.build_processor(**kw)
        comps = [c for _, c in p.components]
        if op == "processor.components.inverse(h)":
            for c in comps:
                c.inverse(h=True)
        elif op == "processor.components.parameters+0.37":
            for c in comps:
                bump_parameters(c) if c.is_composite() else None
        else:
            p.add(0, PS(0.3))
        return [l for c in comps for l in (circuit_leaves(c) if c.is_composite() else [c])]
    c = item.build_circuit(**kw)
    if op == "circuit.inverse(h)":
        c.inverse(h=True)
    elif op == "circuit.inverse(v)":
        c.inverse(v=True)
    elif op == "circuit.parameters+0.37":
        bump_parameters(c)
    elif op == "circuit.add(PS)":
        c.add(0, PS(0.3))
    else:
        for l in circuit_leaves(c):
            try:
                l.inverse(h=True)
            except NotImplementedError:
                pass
    return circuit_leaves(c)


def catalog_history_stream(ctx, expected):
    """expected: [(catalog name, kwargs, unitary the gate's model prescribes)].  For every item and every in-place
    modification of something the item built: the NEXT build (circuit and processor) still has the model's unitary, and
    no leaf component object of one build is handed out again by another."""
    from perceval.components import catalog
    n = 0
    for name, kw, U in expected:
        item = catalog[name]
        a, b = circuit_leaves(item.build_circuit(**kw)), circuit_leaves(item.build_circuit(**kw))
        case = {"item": name, "kwargs": {k: v for k, v in kw.items()}}
        if any(x is y for x in a for y in b):
            ctx.fail("catalog-builds-share-a-component", "two builds of a catalog item contain the same component object",
                     dict(case, shared=[type(x).__name__ for x in a for y in b if x is y]))
        for op in INPLACE_OPS:
            n += 1
            ctx.count("catalog-history." + op)
            try:
                modified = modify_in_place(item, kw, op)
            except Exception as e:
                ctx.count("catalog-history.operation-not-applicable")
                continue
            c2 = item.build_circuit(**kw)
            U2 = np_rows(c2.compute_unitary())
            U3 = np_rows(item.build_processor(**kw).linear_circuit().compute_unitary())
            cs = dict(case, history=["build", op, "build again"])
            ctx.case(["catalog-history", name, sorted(kw.items()), op], True, cs)
            if not (mat_close(U2, U, 1e-9) and mat_close(U3, U, 1e-9)):
                ctx.fail("catalog-rebuild-changed-after-inplace-modification",
                         "a catalog item builds a different gate after something it built earlier was modified in place",
                         cs, expected=str(U), observed=str(U2 if not mat_close(U2, U, 1e-9) else U3))
                break       # the catalog is polluted from here on: one report per item
            if any(x is y for x in modified for y in circuit_leaves(c2)):
                ctx.fail("catalog-builds-share-a-component", "a new build hands out a component object of an earlier build", cs)
                break
    return n


# ------------------------------------------------------------------ exhaustive two-qubit-gate skeletons
def _relabel(seq):
    lab, out = {}, []
    for k, a, b in seq:
        for x in (a, b):
            if x not in lab:
                lab[x] = len(lab)
        out.append((k, lab[a], lab[b]))
    return tuple(out)


def _canon(seq):
    """canonical representative up to qubit renaming (and orientation of the symmetric gates cz, swap)"""
    best = None
    sym = [i for i, g in enumerate(seq) if g[0] != "cx"]
    for mask in range(1 << len(sym)):
        s2 = list(seq)
        for j, i in enumerate(sym):
            if (mask >> j) & 1:
                k, a, b = s2[i]
                s2[i] = (k, b, a)
        r = _relabel(s2)
        if best is None or r < best:
            best = r
    return best


def skeletons(max_len, max_q, kinds):
    """every sequence of 1..max_len two-qubit gates (kind, a, b) on at most max_q qubits, one per renaming class"""
    out, seen = [], set()
    frontier = [()]
    for _ in range(max_len):
        nxt = []
        for seq in frontier:
            used = len({x for _, a, b in seq for x in (a, b)})
            top = min(used + 2, max_q)
            for k in kinds:
                for a in range(top):
                    for b in range(top):
                        if a != b:
                            s2 = seq + ((k, a, b),)
                            if len({x for _, u, v in s2 for x in (u, v)}) > max_q:
                                continue
                            c = _canon(s2)
                            if c == _relabel(s2) and c == s2 and c not in seen:
                                seen.add(c)
                                nxt.append(c)
        out += nxt
        frontier = nxt
    return out


def dress(skel, variant=0):
    """the skeleton with a few cheap one-qubit gates (available in every front end) so that the unitary is not a
    permutation and every CNOT sees superposed controls and targets"""
    nq = 1 + max(x for _, a, b in skel for x in (a, b))
    pre = [("h", None), ("ry", 0.7), ("rx", 1.1), ("t", None)]
    gates = []
    for q in range(nq):
        nm, par = pre[(q + variant) % 4]
        gates.append((nm, [q], par))
        if nm == "t":
            gates.append(("h", [q], None))
    for i, (k, a, b) in enumerate(skel):
        gates.append((k, [a, b], None))
        nm, par = [("t", None), ("ry", 0.4), ("h", None)][(i + variant) % 3]
        gates.append((nm, [b if i % 2 == 0 else a], par))
    return nq, gates


def skeleton_class(skel):
    """coarse shape of the CNOT interaction multigraph, for the histogram"""
    cx = [(a, b) for k, a, b in skel if k == "cx"]
    und = [frozenset(p) for p in cx]
    tags = []
    if len(set(cx)) < len(cx):
        tags.append("repeated-pair")
    if any((b, a) in cx for a, b in cx):
        tags.append("back-and-forth")
    if len(set(und)) == 3 and len({x for p in set(und) for x in p}) == 3:
        tags.append("triangle")
    if any(k != "cx" for k, _, _ in skel):
        other = [(k, {a, b}) for k, a, b in skel if k != "cx"]
        touching = any(q & set(p) for _, q in other for p in cx)
        tags.append("with-cz-or-swap-" + ("touching" if touching else "apart") if cx else "no-cnot")
    return "+".join(tags) or ("chain-or-star" if len(cx) > 1 else "single")


def skeleton_stream(ctx, avail, budget):
    """SYSTEMATIC coverage of the structure the converter's choice of post-processed / heralded CNOTs depends on:
    exhaustive skeleton families (not random), every front end, both use_postselection values; exact-model requests are
    cost-bounded one by one and sent as ONE batch (parallel runner processes)."""
    import subprocess
    import numpy as np
    if not avail:
        return 0
    quick = ctx.quick()
    fam = [(s, "cnot-only") for s in skeletons(3, 4, ["cx"])]
    fam += [(s, "mixed") for s in skeletons(2, 4, ["cx", "cz", "swap"]) if any(k != "cx" for k, _, _ in s)]
    mixed3 = [s for s in skeletons(3, 3, ["cx", "cz", "swap"]) if sum(1 for k, _, _ in s if k != "cx") == 1 and len(s) == 3]
    if quick:       # a deterministic slice that moves with the seed; the thorough tier takes them all
        mixed3 = [s for i, s in enumerate(mixed3) if (i + ctx.seed) % 2 == 0]
    fam += [(s, "mixed-3") for s in mixed3]
    fws = list(avail)
    cases = []
    for i, (skel, family) in enumerate(fam):
        nq, gates = dress(skel, i)
        for j, ups in enumerate((True, False)):
            # cQASM has no SWAP: the other front ends take those
            ok_fws = [f for f in fws if not (f == "cqasm" and any(k == "swap" for k, _, _ in skel))]
            if not ok_fws:
                continue
            # quick: every skeleton x flag on one front end, rotating (CNOT-only skeletons with post-selection - where the
            # labelling decides - on ALL front ends); thorough: the full product
            if (not quick) or (family == "cnot-only" and ups and len(skel) >= 2):
                chosen = ok_fws
            else:
                chosen = [ok_fws[(i + j + ctx.seed) % len(ok_fws)]]
            # all-heralded conversions carry two ancilla photons per CNOT/CZ: beyond 7 photons the quick tier defers
            n_her = sum(1 for k, _, _ in skel if k != "swap")
            if quick and (not ups or family != "cnot-only") and nq + 2 * n_her > 7:
                ctx.count("skeleton.all-heralded-beyond-7-photons-deferred-to-thorough")
                continue
            for fw in chosen:
                cases.append((fw, nq, gates, ups, skel, family))
    # convert everything, bound every exact request before it is sent
    prepared, items = [], []
    for fw, nq, gates, ups, skel, family in cases:
        ctx.count("skeleton." + family)
        ctx.count("skeleton.shape." + skeleton_class(skel))
        try:
            p = convert(fw, build_source(fw, nq, gates), ups)
        except Exception as e:
            prepared.append((fw, nq, gates, ups, skel, None, f"converter-exception-{fw}-{type(e).__name__}"))
            continue
        her = {int(k): int(v) for k, v in p.heralds.items()}
        n = nq + sum(her.values())
        exact = (not any(k < 2 * nq for k in her)) and budget.take(cost(nq, n))
        if exact:
            pst = ps_tree(str(p.post_select_fn) if p.post_select_fn is not None else "")
            items.append((p.circuit_size, np_rows(p.linear_circuit().compute_unitary()), her, pst, nq))
        prepared.append((fw, nq, gates, ups, skel, p, len(items) - 1 if exact else None))
    answers = None
    if items:
        try:
            answers = model_logical(ctx, items, False, timeout=90 if quick else 1800)
        except subprocess.TimeoutExpired:
            ctx.count("conv.model-timeout")
            ctx.notes.append("the batched skeleton request timed out; its cases are routed to the SLOS check")
    none = Budget(0, 0, 1)
    shrunk = set()
    for fw, nq, gates, ups, skel, p, ref in prepared:
        if p is None:
            sig, info = ref, {}
        else:
            pre = answers[ref] if (answers is not None and ref is not None) else None
            sig, info = judge(ctx, fw, nq, gates, ups, p, 0, none, pre=pre)
        case = dict(show(fw, nq, gates, ups), skeleton=[list(g) for g in skel], **{k: str(v) for k, v in info.items()})
        ctx.case(["skeleton", fw, [list(g) for g in skel], ups], True, case)
        if sig:
            # skeletons are small already: only the first failure of a signature is shrunk further (keeps a run on a
            # defective tree short; the verdict line needs one witness per signature)
            if sig not in shrunk:
                shrunk.add(sig)
                g2 = shrink(ctx, fw, nq, gates, ups, sig)
                _, info2 = evaluate(ctx, fw, nq, g2, ups, leak_budget=0)
            else:
                g2, info2 = gates, info
            ctx.fail(sig, "converted processor does not act as the source unitary on the logical basis (skeleton family)",
                     dict(show(fw, nq, g2, ups), skeleton=[list(g) for g in skel], **{k: str(v) for k, v in info2.items()}),
                     expected="every logical state passes heralds+post-selection and A = lam * U_source",
                     observed=str({k: info2.get(k) for k in ("postselect", "heralds", "logical_states_rejected", "deviation", "factor")}))
    return len(cases)


# ------------------------------------------------------------------ the front-ends' input languages (edges and error side)
CQ_NAMES = {"h": "H", "x": "X", "y": "Y", "z": "Z", "s": "S", "sdg": "Sdag", "t": "T", "tdg": "Tdag", "x90": "X90",
            "mx90": "mX90", "y90": "Y90", "my90": "mY90", "rx": "Rx", "ry": "Ry", "rz": "Rz", "cx": "CNOT", "cz": "CZ"}
CQ_EXPRS = [("pi/2", math.pi / 2), ("-pi/4", -math.pi / 4), ("2*0.35", 0.7), ("pi", math.pi), ("1", 1.0)]
CLEAN_REFUSALS = {"cqasm": {"ConversionUnsupportedFeatureError", "ConversionSyntaxError", "ConversionBadVersionError",
                            "UnknownGateError", "NotImplementedError"},
                  "qiskit": {"AssertionError", "NotImplementedError", "UnknownGateError"},
                  "myqlm": {"AssertionError", "NotImplementedError", "UnknownGateError"}}


def cq_expand(stmt):
    """language semantics of one statement: one-qubit gates apply to every addressed qubit; two-qubit gates apply
    pairwise to operand lists of equal length (single-gate-multiple-qubit notation), a single qubit against a list is
    broadcast; anything else (different lengths, a qubit paired with itself) has no meaning -> None (must be refused)"""
    g, ops, par = stmt["gate"], stmt["ops"], stmt["par"]
    val = par[1] if par else None
    if len(ops) == 1:
        return [(g, [i], val) for i in ops[0]]
    a, b = ops
    if len(a) == len(b):
        pairs = list(zip(a, b))
    elif len(a) == 1:
        pairs = [(a[0], t) for t in b]
    elif len(b) == 1:
        pairs = [(c, b[0]) for c in a]
    else:
        return None
    if any(c == t for c, t in pairs):
        return None
    return [(g, [c, t], val) for c, t in pairs]


def cq_operand(regs, idxs, form):
    """render global qubit indices (all in one register) as name, name[i], name[a:b] or name[i,j,...]"""
    off = 0
    for name, size in regs:
        k = 1 if size is None else size
        if off <= idxs[0] < off + k:
            loc = [i - off for i in idxs]
            if size is None:
                return name
            if form == "range" and len(loc) > 1:
                return f"{name}[{loc[0]}:{loc[-1]}]"
            return f"{name}[{','.join(str(i) for i in loc)}]"
        off += k
    raise ValueError(idxs)


def cq_render(prog):
    regs, v = prog["regs"], prog["version"]
    lines = []
    if prog.get("comments") and v != "1.0":
        lines.append("// generated program")
    if v is not None:
        lines.append(f"version {v}")
    if v == "1.0":
        lines.append("# a comment")
        lines.append(f"qubits {sum(1 if sz is None else sz for _, sz in regs)}")
        if prog.get("comments"):
            lines.append("prep_z q[0]")
    else:
        if prog.get("comments"):
            lines.append("/* block\n   comment */")
        for name, size in regs:
            lines.append(f"qubit {name}" if size is None else f"qubit[{size}] {name}" + ("  // register" if prog.get("comments") else ""))
    for st in prog["stmts"]:
        ops = [cq_operand(regs, o, f) for o, f in zip(st["ops"], st["forms"])]
        name = CQ_NAMES[st["gate"]]
        if v == "1.0":
            sep = ", " if prog.get("comments") else ","
            lines.append(f"{name} {sep.join(ops)}" + (f", {st['par'][1]!r}" if st["par"] else ""))
        else:
            lines.append((f"{name}({st['par'][0]}) " if st["par"] else f"{name} ") + ", ".join(ops))
    if v == "1.0" and prog.get("comments"):
        lines.append("measure q[0]")
    return "\n".join(lines) + "\n"


def cq_form(st):
    k = [len(o) for o in st["ops"]]
    if len(k) == 1:
        base = "1q-" + (st["forms"][0] if k[0] > 1 else "single")
    elif k == [1, 1]:
        base = "2q-single"
    elif k[0] == k[1]:
        base = "2q-pairwise-" + st["forms"][0]
    elif 1 in k:
        base = "2q-broadcast"
    else:
        base = "2q-length-mismatch"
    return base + ("-expression" if st["par"] and not st["par"][0].replace(".", "").replace("-", "").isdigit() else "")


def rand_cq_program(rng):
    r = rng.below(20)
    version = "1.0" if r < 4 else "2.0" if r == 4 else None if r == 5 else rng.choice(["3.0", "3"])
    nq = rng.rint(2, 4)
    if version in ("3.0", "3") and rng.chance(1, 3):       # several registers, single-qubit variables
        regs, left, names = [], nq, iter("abcd")
        while left:
            k = rng.rint(1, left)
            regs.append((next(names), None if (k == 1 and rng.chance(1, 2)) else k))
            left -= k
    else:
        regs = [("q", nq)]
    bounds, off = [], 0
    for _, sz in regs:
        k = 1 if sz is None else sz
        bounds.append((off, k))
        off += k

    def operand(maxlen, exact=None):
        o, k = rng.choice(bounds)
        ln = exact if exact is not None else rng.rint(1, min(maxlen, k))
        if ln > k:
            return None, None
        if ln > 1 and rng.chance(1, 2):
            a = rng.rint(0, k - ln)
            return [o + a + i for i in range(ln)], "range"
        return [o + i for i in rng.shuffle(list(range(k)))[:ln]], ("list" if ln > 1 else "single")
    stmts, n2 = [], 0
    for _ in range(rng.rint(1, 5)):
        two = n2 < 3 and rng.chance(2, 5)
        if not two:
            g = rng.choice(ONE_Q["cqasm"])
            par = None
            if g in PARAM:
                par = rng.choice(CQ_EXPRS) if (version != "1.0" and rng.chance(1, 2)) else (None, rng.rint(-3000, 3000) / 1000.0)
                par = (repr(par[1]), par[1]) if par[0] is None else par
            o, f = operand(3 if version != "1.0" or rng.chance(1, 4) else 1)
            stmts.append({"gate": g, "ops": [o], "forms": [f], "par": par})
            continue
        kind = rng.below(10) if version != "1.0" else rng.below(5)      # 0-4 single pair, 5-7 pairwise lists, 8 broadcast, 9 mismatch
        la, lb = (1, 1) if kind < 5 else (2, 2) if kind < 8 else rng.choice([(1, 2), (2, 1), (1, 3)]) if kind == 8 else rng.choice([(2, 3), (3, 2)])
        for _try in range(20):
            a, fa = operand(3, la)
            b, fb = operand(3, lb)
            if a is None or b is None:
                continue
            st = {"gate": rng.choice(["cx", "cx", "cz"]), "ops": [a, b], "forms": [fa, fb], "par": None}
            exp = cq_expand(st)
            if (exp is not None or la != lb or rng.chance(1, 8)) and n2 + max(la, lb) <= 3:
                stmts.append(st)
                n2 += max(la, lb)
                break
    if not stmts:
        stmts.append({"gate": "h", "ops": [[0]], "forms": ["single"], "par": None})
    return {"version": version, "regs": regs, "stmts": stmts, "comments": rng.chance(1, 2), "nq": nq}


def cq_reference(prog):
    """gate list of the language semantics, or None when the program has no meaning / an unsupported header"""
    if prog["version"] not in ("3.0", "3", "1.0"):
        return None
    out = []
    for st in prog["stmts"]:
        e = cq_expand(st)
        if e is None:
            return None
        out += e
    return out


def qk_build(desc, nq, split):
    """Qiskit circuit from a description that uses the API's own addressing forms; -> (circuit, is_unitary)"""
    from qiskit import QuantumCircuit, QuantumRegister, ClassicalRegister
    if split:
        qc = QuantumCircuit(QuantumRegister(split, "a"), QuantumRegister(nq - split, "b"), ClassicalRegister(nq, "c"))
    else:
        qc = QuantumCircuit(nq, nq)
    unitary = True
    for op in desc:
        k = op[0]
        if k == "gate":
            _, name, qs, par = op
            getattr(qc, name)(*((list(par) if isinstance(par, list) else [par] if par is not None else []) + qs))
        elif k == "multi1":                 # one call, several target qubits
            getattr(qc, op[1])(op[2])
        elif k == "multi2":                 # one call, lists of controls and targets (pairwise)
            getattr(qc, op[1])(op[2], op[3])
        elif k == "barrier":
            qc.barrier()
        elif k in ("measure", "reset"):
            unitary = False
            qc.measure(op[1], op[1]) if k == "measure" else qc.reset(op[1])
        elif k in ("ccx", "ch", "iswap", "cy"):
            getattr(qc, k)(*op[1:])
        elif k in ("crz", "cp"):
            getattr(qc, k)(op[1], *op[2:])
    return qc, unitary


def rand_qk_desc(rng, nq):
    desc = []
    special = rng.choice(["multi1", "multi2", "barrier", "measure", "reset", "ccx", "ch", "iswap", "cy", "crz", "cp", "registers"])
    for _ in range(rng.rint(1, 3)):
        name = rng.choice(["h", "x", "s", "t", "rx", "ry"])
        desc.append(("gate", name, [rng.below(nq)], rng.rint(-3000, 3000) / 1000.0 if name in PARAM else None))
    qs = rng.shuffle(list(range(nq)))
    if special == "multi1":
        desc.append(("multi1", rng.choice(["h", "x", "t", "sdg"]), sorted(qs[:rng.rint(2, nq)])))
    elif special == "multi2" and nq >= 3:
        k = 2 if nq >= 4 and rng.chance(1, 2) else 1
        desc.append(("multi2", rng.choice(["cx", "cz"]), qs[:k], qs[k:2 * k]) if k == 2 else
                    ("multi2", rng.choice(["cx", "cz"]), [qs[0]], qs[1:3]))
    elif special == "barrier":
        desc.insert(1, ("barrier",))
    elif special in ("measure", "reset"):
        desc.insert(rng.below(len(desc) + 1), (special, rng.below(nq)))
    elif special == "ccx" and nq >= 3:
        desc.append(("ccx", qs[0], qs[1], qs[2]))
    elif special in ("ch", "iswap", "cy"):
        desc.append((special, qs[0], qs[1]))
    elif special in ("crz", "cp"):
        desc.append((special, rng.rint(-3000, 3000) / 1000.0, qs[0], qs[1]))
    desc.append(("gate", "h", [qs[-1]], None))
    split = rng.rint(1, nq - 1) if special == "registers" else 0
    if split:       # at least one gate on each register
        desc += [("gate", "y", [0], None), ("gate", "h", [nq - 1], None)]
    return desc, split, special


def qlm_build(desc, nq):
    import numpy as np
    from qat.lang.AQASM import Program, H, X, S, T, RX, RY, CNOT, CCNOT, ISWAP, RZ
    tab = {"h": H, "x": X, "s": S, "t": T}
    pr = Program()
    q = pr.qalloc(nq)
    c = pr.calloc(nq)
    for op in desc:
        k = op[0]
        if k == "gate":
            _, name, qs, par = op
            pr.apply({"rx": RX, "ry": RY}[name](par) if name in ("rx", "ry") else tab[name], *[q[i] for i in qs])
        elif k == "ccnot":
            pr.apply(CCNOT, q[op[1]], q[op[2]], q[op[3]])
        elif k == "ctrl-h":
            pr.apply(H.ctrl(), q[op[1]], q[op[2]])
        elif k == "ctrl-rz":
            pr.apply(RZ(op[1]).ctrl(), q[op[2]], q[op[3]])
        elif k == "iswap":
            pr.apply(ISWAP, q[op[1]], q[op[2]])
        elif k == "measure":
            pr.measure(q[op[1]], c[op[1]])
        elif k == "reset":
            pr.reset(q[op[1]])
    return pr.to_circ()


def qlm_reference(desc):
    r = 1 / math.sqrt(2)
    ctrl = lambda g: [[1, 0, 0, 0], [0, 1, 0, 0], [0, 0, g[0][0], g[0][1]], [0, 0, g[1][0], g[1][1]]]
    out = []
    for op in desc:
        k = op[0]
        if k == "gate":
            out.append((op[1], op[2], op[3]))
        elif k == "ccnot":
            M = [[1 if (i == j and i < 6) or {i, j} == {6, 7} else 0 for j in range(8)] for i in range(8)]
            out.append(("mat", [op[1], op[2], op[3]], M))
        elif k == "ctrl-h":
            out.append(("mat", [op[1], op[2]], ctrl([[r, r], [r, -r]])))
        elif k == "ctrl-rz":
            out.append(("mat", [op[2], op[3]], ctrl(gate_matrix("rz", op[1]))))
        elif k == "iswap":
            out.append(("mat", [op[1], op[2]], [[1, 0, 0, 0], [0, 0, 1j, 0], [0, 1j, 0, 0], [0, 0, 0, 1]]))
        else:
            return None             # measure / reset: not a unitary circuit, must be refused
    return out


def rand_qlm_desc(rng, nq):
    desc = [("gate", rng.choice(["h", "x", "s", "t"]), [rng.below(nq)], None) for _ in range(rng.rint(1, 3))]
    qs = rng.shuffle(list(range(nq)))
    special = rng.choice(["ccnot", "ctrl-h", "ctrl-rz", "iswap", "measure", "reset"])
    if special == "ccnot" and nq >= 3:
        desc.append(("ccnot", qs[0], qs[1], qs[2]))
    elif special in ("ctrl-h", "iswap"):
        desc.append((special, qs[0], qs[1]))
    elif special == "ctrl-rz":
        desc.append((special, rng.rint(-3000, 3000) / 1000.0, qs[0], qs[1]))
    elif special in ("measure", "reset"):
        desc.insert(rng.below(len(desc) + 1), (special, rng.below(nq)))
    desc.append(("gate", "h", [qs[-1]], None))
    return desc, special


def language_verdict(ctx, fw, source, nq, ref_gates, Us, ups, budget, form):
    """either a clean refusal or a processor on nq qubits proportional to the reference (ref_gates or Us); both None = the
    input has no meaning and must be refused.  -> (signature or None, info)"""
    try:
        p = convert(fw, source, ups)
    except Exception as e:
        kind = type(e).__name__
        clean = kind in CLEAN_REFUSALS[fw]
        ctx.count(f"lang.{fw}.refused." + ("clean" if clean else "other:" + kind))
        return None, {"refused": kind, "message": str(e)[:120]}
    ctx.count(f"lang.{fw}.converted")
    info = {"m": p.circuit_size, "heralds": {int(k): int(v) for k, v in p.heralds.items()}}
    if ref_gates is None and Us is None:
        return f"converter-accepts-meaningless-source-{fw}-{form}", info
    if p.circuit_size - len(p.heralds) != 2 * nq:
        info["qubits_of_processor"] = (p.circuit_size - len(p.heralds)) / 2
        return f"converter-source-language-{fw}-{form}-qubit-count", info
    sig, info2 = judge(ctx, fw, nq, ref_gates or [], ups, p, 0, budget, Us=Us)
    info.update(info2)
    return (f"converter-source-language-{fw}-{form}" if sig else None), info


def language_stream(ctx, avail, budget):
    import numpy as np
    rng = ctx.rng
    n = 0
    # ---- cQASM programs written with the language's addressing forms
    if "cqasm" in avail:
        progs = [rand_cq_program(rng) for _ in range(ctx.n(45, 300))]
        # every addressing form at least once per run
        q4 = [("q", 4)]
        st = lambda g, ops, forms, par=None: {"gate": g, "ops": ops, "forms": forms, "par": par}
        for stmts in ([st("h", [[0, 1, 2]], ["range"])], [st("x", [[0, 2]], ["list"])],
                      [st("cx", [[0, 1], [2, 3]], ["range", "range"])], [st("cz", [[0, 3], [2, 1]], ["list", "list"])],
                      [st("cx", [[3, 1], [0, 2]], ["list", "list"])], [st("cx", [[0], [1, 2]], ["single", "range"])],
                      [st("cx", [[1, 2], [0]], ["range", "single"])], [st("cx", [[0, 1], [1, 2, 3]], ["range", "range"])],
                      [st("rx", [[0, 1]], ["range"], ("pi/2", math.pi / 2))]):
            for v in ("3.0", "1.0"):
                progs.append({"version": v, "regs": q4, "stmts": [st("h", [[0]], ["single"])] + stmts + [st("h", [[2]], ["single"])],
                              "comments": False, "nq": 4})
        for prog in progs:
            ups = rng.chance(2, 3)
            ref = cq_reference(prog)

            def verdict(pg):
                forms = sorted({cq_form(x) for x in pg["stmts"]} - {"1q-single", "2q-single"}) or ["plain"]
                form = "+".join(forms) if pg["version"] in ("3.0", "3", "1.0") else "header"
                if pg["version"] == "1.0":      # the v1 front-end is a hand-written line parser: name the token shape
                    lists = any(f == "list" and len(o) > 1 for x in pg["stmts"] for o, f in zip(x["ops"], x["forms"]))
                    form = "v1-list-index" if lists else "v1-" + form
                return language_verdict(ctx, "cqasm", cq_render(pg), pg["nq"], cq_reference(pg), None, ups, budget, form)
            sig, info = verdict(prog)
            n += 1
            case = {"framework": "cqasm", "program": cq_render(prog), "use_postselection": ups,
                    "reference": "must be refused" if ref is None else [[g, q] for g, q, _ in ref], **{k: str(v) for k, v in info.items()}}
            ctx.case(["lang-cqasm", cq_render(prog), ups], True, case)
            for x in prog["stmts"]:
                ctx.count("lang.cqasm.form." + cq_form(x))
            ctx.count("lang.cqasm.version=" + str(prog["version"]))
            if sig:
                pg, changed = dict(prog), True
                while changed and len(pg["stmts"]) > 1:
                    changed = False
                    for i in range(len(pg["stmts"])):
                        p2 = dict(pg, stmts=pg["stmts"][:i] + pg["stmts"][i + 1:])
                        s2, _ = verdict(p2)
                        if s2 is not None and s2.split("-")[1] == sig.split("-")[1]:
                            pg, changed = p2, True
                            break
                sig2, info2 = verdict(pg)
                ref2 = cq_reference(pg)
                ctx.fail(sig2 or sig, "a cQASM program is converted to a processor that is not the program's circuit",
                         {"framework": "cqasm", "program": cq_render(pg), "use_postselection": ups,
                          "reference": "must be refused" if ref2 is None else [[g, q] for g, q, _ in ref2]},
                         expected="a refusal (Conversion*Error) or a processor proportional to the reference unitary",
                         observed=str({k: info2.get(k) for k in ("m", "heralds", "deviation", "factor", "qubits_of_processor")}))
    # ---- Qiskit: the API's own forms (multi-target calls, barriers, measure/reset, registers, gates outside the supported set)
    if "qiskit" in avail:
        from qiskit.quantum_info import Operator
        for _ in range(ctx.n(24, 150)):
            nq = rng.rint(2, 4)
            desc, split, special = rand_qk_desc(rng, nq)
            ups = rng.chance(1, 2)
            qc, unitary = qk_build(desc, nq, split)
            Us = np.array(Operator(qc.reverse_bits()).data).tolist() if unitary else None
            sig, info = language_verdict(ctx, "qiskit", qc, nq, None, Us, ups, budget, special)
            n += 1
            case = {"framework": "qiskit", "description": [list(map(str, d)) for d in desc], "registers": [split, nq - split] if split else [nq],
                    "use_postselection": ups, "reference": "qiskit Operator" if unitary else "must be refused", **{k: str(v) for k, v in info.items()}}
            ctx.case(["lang-qiskit", str(desc), split, ups], True, case)
            ctx.count("lang.qiskit.form." + special)
            if sig:
                ctx.fail(sig, "a Qiskit circuit is converted to a processor that is not the circuit", case,
                         expected="a refusal or a processor proportional to qiskit's Operator of the circuit", observed=str(info))
    # ---- myQLM: controlled / three-qubit gates, measure, reset
    if "myqlm" in avail:
        for _ in range(ctx.n(12, 80)):
            nq = rng.rint(2, 3)
            desc, special = rand_qlm_desc(rng, nq)
            ups = rng.chance(1, 2)
            sig, info = language_verdict(ctx, "myqlm", qlm_build(desc, nq), nq, qlm_reference(desc), None, ups, budget, special)
            n += 1
            case = {"framework": "myqlm", "description": [list(map(str, d)) for d in desc], "use_postselection": ups,
                    **{k: str(v) for k, v in info.items()}}
            ctx.case(["lang-myqlm", str(desc), ups], True, case)
            ctx.count("lang.myqlm.form." + special)
            if sig:
                ctx.fail(sig, "a myQLM circuit is converted to a processor that is not the circuit", case,
                         expected="a refusal or a processor proportional to the circuit's unitary", observed=str(info))
    return n


def show(fw, nq, gates, ups):
    return {"framework": fw, "qubits": nq, "use_postselection": ups,
            "gates": [[nm, qs] + ([par] if par is not None else []) for nm, qs, par in gates]}


# ------------------------------------------------------------------ run
def run(ctx):
    import numpy as np
    import perceval as pcvl
    from perceval.components import catalog
    rng = ctx.rng

    # ---------------------------------------------------------------- 1a. fixed gates: complete comparison of constants
    expected = []      # (name, kwargs, model unitary) for the catalog-history stream at the end
    outs = ctx.model.run([(2000, gid) for _, gid in FIXED], jobs=1, timeout=600)
    for (name, gid), out in zip(FIXED, outs):
        m, q, her, pst, gens, Uc, fc, Gc, Ac, verdict = out
        g = tower_eval(gens)
        U = [[flat_eval(e, g) for e in row] for row in Uc]
        f = flat_eval(fc, g)
        G = [[flat_eval(e, g) for e in row] for row in Gc]
        A = [[flat_eval(Ac[b][b2], g) for b in range(1 << q)] for b2 in range(1 << q)]     # A[b'][b]
        case = {"gate": name, "modes": m, "qubits": q, "factor": [f.real, f.imag], "success_probability": abs(f) ** 2}
        ctx.case(["fixed", name], True, case)
        ctx.count("fixed-gate")
        expected.append((name, {}, U))
        item = catalog[name]
        Ui = np_rows(item.build_circuit().compute_unitary())
        p = item.build_processor()
        if p.circuit_size != m or not mat_close(U, Ui, 1e-9):
            ctx.fail(f"catalog-unitary-{name}", "tower model's unitary differs from build_circuit().compute_unitary()", case,
                     expected=str(U), observed=str(Ui))
            continue
        her_i = sorted([int(k), int(v)] for k, v in p.heralds.items())
        ps_i = ps_flat(ps_tree(str(p.post_select_fn) if p.post_select_fn is not None else ""))
        if her_i != sorted(her) or ps_i != ps_flat(pst):
            ctx.fail(f"catalog-declarations-{name}", "heralds / post-selection differ from the model's", case,
                     expected=str((her, pst)), observed=str((her_i, str(p.post_select_fn))))
        ports = sorted([list(modes), type(port).__name__, str(getattr(port, "encoding", ""))]
                       for port, modes in p.experiment._out_ports.items() if type(port).__name__ != "Herald")
        if [x[0] for x in ports] != [[2 * i, 2 * i + 1] for i in range(q)] or any("DUAL_RAIL" not in x[2] for x in ports):
            ctx.fail(f"catalog-ports-{name}", "dual-rail ports are not modes 0..2q-1", case, observed=str(ports))
        if verdict != 1:
            ctx.fail(f"catalog-decision-{name}", "extracted decision procedure rejects the gate", case)
        fG = [[f * G[i][j] for j in range(1 << q)] for i in range(1 << q)]
        Ai = impl_logical(np.array(Ui), m, q, dict((a, b) for a, b in her))
        if not mat_close(A, fG, 1e-9) or not mat_close(Ai, fG, 1e-9) or abs(f) < 1e-6:
            ctx.fail(f"catalog-logical-{name}", "logical amplitudes differ from f * named matrix", case,
                     expected=str(fG), observed=str(Ai))
    ctx.streams["catalog-constants (complete: 13 fixed gates)"] = len(FIXED)
    ctx.log("fixed gates compared")

    # ---------------------------------------------------------------- 1b. parametrised gates at Pythagorean angles
    n_par = ctx.n(60, 600)
    pcs = []
    for _ in range(n_par):
        kind = rng.below(4)
        a = rand_ang(rng)
        pcs.append((kind, a))
    outs = ctx.model.run([(2002, [k, QI(a.cos), QI(a.sin)]) for k, a in pcs])
    for (kind, a), out in zip(pcs, outs):
        name = ["rx", "ry", "rz", "ph"][kind]
        angle = 2 * a.value if kind < 3 else a.value          # (c, s) = cos, sin of theta/2 for rx, ry, rz; of phi for ph
        U, A, G = un_mat(out[0]), un_mat(out[1]), un_mat(out[2])
        At = [[A[b][b2] for b in range(2)] for b2 in range(2)]
        case = {"gate": name, "angle": angle, "cos_sin": [str(a.cos), str(a.sin)]}
        ctx.case(["param", name, a.key()], a.cos not in (0, 1, -1), case)
        ctx.count("param." + name)
        kw = {"phi": angle} if kind == 3 else {"theta": angle}
        if a.cos not in (0, 1, -1) and sum(1 for e in expected if e[0] == name) < 2:
            expected.append((name, kw, U))
        Ui = np_rows(catalog[name].build_circuit(**kw).compute_unitary())
        Up = np_rows(catalog[name].build_processor(**kw).linear_circuit().compute_unitary())
        if not (mat_close(U, Ui, 1e-9) and mat_close(Up, Ui, 1e-9) and mat_close(At, G, 1e-12) and mat_close(Ui, G, 1e-9)):
            ctx.fail(f"catalog-param-{name}", "parametrised gate differs from its named matrix", case, expected=str(G), observed=str(Ui))
    ctx.streams["parametrised gates"] = n_par

    # ---------------------------------------------------------------- 1c. ccz, toffoli, controlled rotations (per instance)
    from perceval.components.core_catalog.controlled_rotation_gates import build_control_gate_unitary
    inst = [("postprocessed ccz", 3, math.pi, {}), ("toffoli", 3, math.pi, {})]
    alphas = [math.pi, math.pi / 2, -math.pi / 3, 1.0, 2.5, 0.1] if ctx.quick() else [math.pi, math.pi / 2, -math.pi / 3, 1.0, 2.5, 0.1, -2.0, 3.0, 0.7]
    for n in (2, 3, 4):
        for al in (alphas if n < 4 else alphas[:2]):
            inst.append(("postprocessed controlled gate", n, al, {"n": n, "alpha": float(al)}))
    items, metas = [], []
    for name, n, al, kw in inst:
        p = catalog[name].build_processor(**kw)
        U = np_rows(p.linear_circuit().compute_unitary())
        her = {int(k): int(v) for k, v in p.heralds.items()}
        pst = ps_tree(str(p.post_select_fn))
        items.append((p.circuit_size, U, her, pst, n))
        metas.append((name, n, al, p, U))
        if n <= 3 and sum(1 for e in expected if e[0] == name) < 2:
            expected.append((name, kw, U))      # judged below through the model's logical action
    res = model_logical(ctx, items, True, timeout=900)
    blocks = ctx.model.run([(2003, [n, QI(0, 0)]) for _, n, _, _, _ in metas], jobs=1)
    for (name, n, al, p, U), (A, passes, leaks), blk in zip(metas, res, blocks):
        N = 1 << n
        G = [[(1 if i == j else 0) + 0j for j in range(N)] for i in range(N)]
        G[N - 1][N - 1] = cmath.exp(1j * al)
        if name == "toffoli":
            G = [[(1 if (i == j and i < N - 2) or (i >= N - 2 and j >= N - 2 and i != j) else 0) + 0j for j in range(N)] for i in range(N)]
        case = {"gate": name, "n": n, "alpha": al}
        ok, lam, dev = proportional(A, G, 1e-7)
        case["factor"] = abs(lam)
        ctx.case(["crot", name, n, al], True, case)
        ctx.count("crot.n%d" % n)
        # the processor's declarations are those of the model (heralds 0 on the 2n ancillas, one photon per pair)
        decl_ok = sorted(p.heralds.items()) == [(k, 0) for k in range(2 * n, 4 * n)] and \
            ps_flat(ps_tree(str(p.post_select_fn))) == ps_flat(blk[3])
        if not (ok and all(passes) and decl_ok) or abs(lam) < 1e-6:
            ctx.fail(f"catalog-logical-{name}", "logical action differs from the named gate", case,
                     expected="lam * " + str(G), observed=str(A))
        big = [(b, t, abs(a)) for b, t, a in leaks if abs(a) > 1e-7 * abs(lam)]
        if big:
            ctx.fail(f"catalog-leakage-{name}", "non-logical output passes heralds and post-selection", case, observed=str(big[:3]))
        if name == "postprocessed controlled gate":
            # structure of the data block: (implementation block) = (model block at the implementation's a) / sigma
            a = (cmath.exp(al * 1j) - 1) ** (1 / n)
            af = QI(Fraction(int(round(a.real * K40)), K40), Fraction(int(round(a.imag * K40)), K40))
            mb = un_mat(ctx.model.run([(2003, [n, af])], jobs=1)[0][0])
            blk_i = [[U[i][j] for j in range(2 * n)] for i in range(2 * n)]
            okb, sig_, devb = proportional(blk_i, mb, 1e-7)
            if not okb:
                ctx.fail("catalog-crot-block", "data block is not blockdiag(I, I + aJ)/sigma in dual-rail order", case,
                         expected=str(mb), observed=str(blk_i))
    ctx.streams["ccz / toffoli / controlled rotations (per instance)"] = len(inst)
    ctx.log("parametrised gates, ccz/toffoli/controlled rotations done")

    # ---------------------------------------------------------------- 2. converters
    avail = []
    for fw, mod in (("qiskit", "qiskit"), ("myqlm", "qat.lang.AQASM"), ("cqasm", "cqasm.v3x")):
        try:
            __import__(mod)
            avail.append(fw)
        except Exception as e:
            ctx.notes.append(f"{fw} not importable ({type(e).__name__}): its converter stream is skipped")
    # the two witnesses of the known findings first (deterministic), then random circuits
    fixed_cases = []
    if "qiskit" in avail:
        fixed_cases = [("qiskit", 3, [("cx", [2, 1], None)], True), ("qiskit", 3, [("cx", [2, 1], None)], False),
                       ("qiskit", 2, [("h", [0], None), ("cx", [0, 1], None), ("h", [0], None), ("cz", [0, 1], None)], True),
                       ("qiskit", 2, [("h", [0], None), ("cx", [0, 1], None), ("h", [0], None), ("cz", [0, 1], None)], False),
                       ("qiskit", 3, [("h", [0], None), ("cx", [0, 2], None), ("h", [0], None)], True),
                       ("qiskit", 3, [("h", [0], None), ("cx", [0, 1], None), ("swap", [1, 2], None), ("cx", [0, 2], None)], True)]
    # every template of the generic one-qubit conversion, observable (between Hadamards; next to a CNOT), each run
    for fw in [f for f in ("qiskit", "myqlm") if f in avail]:
        for kind in BRANCHES:
            fixed_cases.append((fw, 1, [("h", [0], None), ("u2", [0], rand_u2(rng, kind)), ("h", [0], None)], True))
        for kind in ("two-phases", "lower-phase", "dense"):
            fixed_cases.append((fw, 2, [("h", [0], None), ("u2", [0], rand_u2(rng, kind)), ("cx", [0, 1], None),
                                        ("u2", [1], rand_u2(rng, kind)), ("h", [1], None)], rng.chance(1, 2)))
    fixed_cases = [c + (False,) for c in fixed_cases]
    # multi-parameter gates outside the catalog that share some but not all parameters: in one circuit, and in two
    # circuits converted one after the other by the SAME converter object (last field: reuse the session's converter)
    for fw, nm in [("qiskit", "u"), ("qiskit", "r"), ("qiskit", "qu3"), ("qiskit", "qu2"), ("myqlm", "ug")]:
        if fw not in avail:
            continue
        p1 = [rng.choice(ANGLE_POOL[1:]) for _ in range(MULTI[nm])]
        p2 = [p1[0]] + [rng.choice([a for a in ANGLE_POOL if abs(a - x) > 1e-9]) for x in p1[1:]]
        p3 = p1[1:] + p1[:1] if p1[1:] + p1[:1] != p1 else p1[:-1] + [p1[-1] + 0.4]
        fixed_cases.append((fw, 1, [(nm, [0], p1), ("h", [0], None), (nm, [0], p2), (nm, [0], p3)], True, False))
        fixed_cases.append((fw, 1, [("h", [0], None), (nm, [0], p1)], True, True))
        fixed_cases.append((fw, 2, [(nm, [1], p2), ("h", [1], None), (nm, [0], p3)], True, True))
    import time
    n_rand = ctx.n(60, 500)
    # exact-model budget: per request, in total, runner timeout per request, wall-clock deadline for exact requests
    budget = Budget(3e6, 2.5e7, 60, time.time() + 60) if ctx.quick() else Budget(2.5e7, 3e8, 600, time.time() + 2400)
    cases = list(fixed_cases)
    tries = 0
    sessions = {}
    for fw, _, gates, _, reuse in fixed_cases:
        if reuse:
            for nm, _, par in gates:
                if nm in MULTI:
                    sessions.setdefault(fw, {}).setdefault(nm, []).append(par)
    while len(cases) < len(fixed_cases) + n_rand and avail and tries < 50 * n_rand:
        tries += 1
        fw = avail[len(cases) % len(avail)]
        nq = rng.choice([2, 3, 3, 3, 4])
        ups = rng.chance(1, 2)
        reuse = rng.chance(1, 2)       # converted by the session's converter object (one per framework) or a fresh one
        gates = rand_circuit(rng, fw, nq, rng.rint(2, 8), max2=3, session=(sessions.setdefault(fw, {}) if reuse else None))
        # predicted photon number (heralded gates carry two ancilla photons each; since 8dc2ac38 every CNOT is
        # heralded as soon as a CZ or SWAP is present): beyond the SLOS route nothing could be checked
        names = {nm for nm, _, _ in gates}
        all_her = (not ups) or bool(names & {"cz", "swap"})
        n2h = sum(1 for nm, _, _ in gates if nm == "cz") + (sum(1 for nm, _, _ in gates if nm == "cx") if all_her else 0)
        if nq + 2 * n2h > (9 if ctx.quick() else 10):
            ctx.count("generated-but-too-large")
            continue
        cases.append((fw, nq, gates, ups, reuse))
    second_oracle = 0
    conv_obj, conv_hist = {}, {}
    for fw, nq, gates, ups, reuse in cases:
        nontriv = any(len(qs) == 2 or nm in ("h", "rx", "ry", "x", "y", "x90", "mx90", "y90", "my90") or
                      (nm in GENERIC_NAMES and generic_branch(nm, par) != "identity") for nm, qs, par in gates)
        for nm, _, par in gates:
            if nm in GENERIC_NAMES:
                ctx.count("conv.generic." + generic_branch(nm, par))
        shared = [nm for nm, _, par in gates if nm in MULTI and any(
            p2 != par and (p2[0] == par[0] or sorted(p2) == sorted(par))
            for n2, _, p2 in (list(gates) + [g for h in (conv_hist.get(fw, []) if reuse else []) for g in h[1]]) if n2 == nm)]
        if shared:
            ctx.count("conv.multi-parameter-gates-sharing-parameters" + (".across-conversions" if reuse else ""))
        conv = None
        if reuse:
            if fw not in conv_obj:
                conv_obj[fw] = new_converter(fw)
            conv = conv_obj[fw]
            ctx.count("conv.converter-object-reused")
        sig, info = evaluate(ctx, fw, nq, gates, ups, budget=budget, conv=conv)
        case = dict(show(fw, nq, gates, ups), **{k: (v if not isinstance(v, dict) else str(v)) for k, v in info.items()})
        case["converter_object"] = "reused (%d earlier conversions)" % len(conv_hist.get(fw, [])) if reuse else "fresh"
        ctx.case(["conv", fw, nq, [[nm, qs, par] for nm, qs, par in gates], ups, reuse], nontriv, case)
        ctx.count(f"conv.{fw}.ups={ups}")
        ctx.count(f"conv.qubits={nq}")
        if any(len(qs) == 2 and abs(qs[0] - qs[1]) > 1 for _, qs, _ in gates):
            ctx.count("conv.non-adjacent-pair")
        if any(len(qs) == 2 and qs[0] > qs[1] for _, qs, _ in gates):
            ctx.count("conv.control-above-target")
        if fw == "qiskit":
            from qiskit.quantum_info import Operator
            Uq = np.array(Operator(build_source(fw, nq, gates).reverse_bits()).data)
            second_oracle += 1
            if np.abs(Uq - src_unitary(nq, canon_gates(gates))).max() > 1e-9:
                ctx.fail("source-semantics-oracle", "driver's gate-list simulator disagrees with qiskit's Operator (harness bug)",
                         case)
        if sig and reuse and evaluate(ctx, fw, nq, gates, ups, leak_budget=0)[0] is None:
            # a fresh converter converts the same circuit correctly: the object's history matters
            h2, g2 = shrink_history(ctx, fw, conv_hist.get(fw, []), nq, gates, ups)
            ctx.fail("converter-object-reuse-changes-conversion",
                     "a converter object that converted other circuits before converts this one wrongly (a fresh one does not)",
                     dict(show(fw, nq, g2, ups), earlier_conversions=[show(fw, a, b, c) for a, b, c in (h2 or conv_hist.get(fw, []))],
                          reproducible_from_conversions_alone=h2 is not None, first_signature=sig),
                     expected="the conversion does not depend on what the object converted before",
                     observed=str({k: info.get(k) for k in ("deviation", "factor", "logical_states_rejected")}))
            conv_obj.pop(fw, None)
            conv_hist[fw] = []
        elif sig:
            g2 = shrink(ctx, fw, nq, gates, ups, sig)
            _, info2 = evaluate(ctx, fw, nq, g2, ups, leak_budget=0)
            ctx.fail(sig, "converted processor does not act as the source unitary on the logical basis",
                     dict(show(fw, nq, g2, ups), **{k: str(v) for k, v in info2.items()}),
                     expected="every logical state passes heralds+post-selection and A = lam * U_source",
                     observed=str({k: info2.get(k) for k in ("postselect", "heralds", "logical_states_rejected", "deviation", "factor", "leaks")}))
        if reuse and fw in conv_obj:
            conv_hist.setdefault(fw, []).append((nq, gates, ups))
    ctx.streams["converters: " + ", ".join(avail)] = len(cases)
    ctx.log(f"{len(cases)} converted circuits validated (exact-model cost spent {budget.spent:.3g} of {budget.total:.3g})")
    ctx.hist["conv.exact-cost-spent"] = int(budget.spent)
    ctx.hist["qiskit-operator-second-oracle"] = second_oracle

    # ---------------------------------------------------------------- 2a. exhaustive two-qubit-gate skeletons
    skel_budget = Budget(3e6, 1.5e8, 60) if ctx.quick() else Budget(2.5e7, 2e9, 600)
    ctx.streams["two-qubit-gate skeletons (exhaustive up to renaming)"] = skeleton_stream(ctx, avail, skel_budget)
    ctx.log(f"skeleton stream done (exact-model cost {skel_budget.spent:.3g})")

    # ---------------------------------------------------------------- 2b. the front-ends' input languages
    lang_budget = Budget(3e6, 1.2e7, 60, time.time() + 40) if ctx.quick() else Budget(2.5e7, 1e8, 600, time.time() + 900)
    ctx.streams["source languages: addressing forms, headers, instructions to refuse"] = language_stream(ctx, avail, lang_budget)
    ctx.log("source-language stream done")

    # ---------------------------------------------------------------- vm_compute cross-check of the extraction
    small = [(2000, 0), (2000, 8), (2002, [0, QI(Fraction(3, 5)), QI(Fraction(4, 5))]), (2003, [2, QI(Fraction(1, 2), Fraction(1, 3))])]
    p = catalog["postprocessed cnot"].build_processor()
    small.append((2001, [6, grid(np_rows(p.linear_circuit().compute_unitary())), [[4, 0], [5, 0]], ps_tree(str(p.post_select_fn)), 2, 1]))
    a = ctx.model.run(small, jobs=1)
    b = ctx.model.vm_crosscheck(small, tag="c20")
    ctx.count("vm_compute-crosscheck", len(small))
    if a != b:
        ctx.fail("extraction-vs-vm_compute", "extracted model and vm_compute disagree", {"requests": str(small)[:500]})

    # ---------------------------------------------------------------- catalog histories (last: a leaking item pollutes the catalog)
    ctx.streams["catalog histories: build, modify in place, build again"] = catalog_history_stream(ctx, expected)
    ctx.log("catalog histories done")
    ctx.exhaustive = False


def replay(ctx, case):
    import json
    print(json.dumps(case, indent=1, default=str))
    c = case.get("case", case)
    un = lambda gl: [(g[0], g[1], g[2] if len(g) > 2 else None) for g in gl]
    if "history" in c and "item" in c:
        from perceval.components import catalog
        import numpy as np
        item, kw = catalog[c["item"]], c.get("kwargs", {})
        before = np.array(item.build_circuit(**kw).compute_unitary())
        modify_in_place(item, kw, c["history"][1])
        after = np.array(item.build_circuit(**kw).compute_unitary())
        print("max |second build - first build| =", float(np.abs(after - before).max()))
        return
    if "earlier_conversions" in c:
        hist = [(h["qubits"], un(h["gates"]), h["use_postselection"]) for h in c["earlier_conversions"]]
        print("fresh converter:", evaluate(ctx, c["framework"], c["qubits"], un(c["gates"]), c["use_postselection"])[0])
        print("after the earlier conversions: fails =", fails_after(ctx, c["framework"], hist, c["qubits"], un(c["gates"]), c["use_postselection"]))
        return
    if "framework" in c:
        gates = un(c["gates"])
        sig, info = evaluate(ctx, c["framework"], c["qubits"], gates, c["use_postselection"])
        print("signature:", sig)
        print(info)
