"""C17 — a remote job's status follows the server and survives transient faults.

The real `RemoteJob` + the real `RPCHandler` run against a scripted server (the `responses` library replaces the
network, nothing else); the same trace is given to the extracted Coq model of the code (dispatch 1700), to the model
of the repaired code (1701) and to the specification automaton (1702).  Per step we compare the outcome (returned
status / new job id / results tag / exception class and content), the HTTP requests received (endpoint, job id in
the URL, answered 200 or not) and the job's white-box state (_id, _job_status.status, _status_refresh_error,
cached results, stop message).

 * real vs model-of-the-code: any difference is a correspondence failure (signature `model-mismatch:*`).
 * real vs specification: a difference is a violation of the property by /repo; it is classified
   (`double-send`, `sixth-failure-absorbed`, else `spec-divergence:*`), shrunk and reported.
"""
from __future__ import annotations
import copy
import json
import re

LEVEL = "proof"
RULE = ("traces of client actions on RemoteJob objects (execute_async, status, cancel, rerun, get_results, "
        "execute_sync), each action carrying the scripted answer of the server for every request it may trigger "
        "(status string among 14 incl. suspended/unknown/garbage/case variants, HTTP 408/409/421/423/429, other "
        "HTTP errors, connection error, accept/refuse, results document/null/missing). Streams: (1) every trace of "
        "length <= L over a 14-symbol alphabet on one job (prefix tree, L=4 quick / 5 thorough); (2) every sequence "
        "of k <= 8 failed polls over {429, connection error} after an accepted execute, followed by a successful "
        "and a failed poll; (3) random traces of length 5-25 over the full alphabet on several jobs (jobs born from "
        "rerun are driven too), with bursts of failures. Non-trivial: at least one status request reached the "
        "server; distinct by the exact trace (actions, targets, answers).")
TRUSTED = ["model: coq/Model/RemoteJob.v (hand-written from remote_job.py / job.py / job_status.py / rpc_handler.py; "
           "tied by this correspondence stream)",
           "the `responses` library as the stand-in for the network; the harness's table of status strings and its "
           "classification of exceptions"]
ASSUMPTIONS = ["RemoteJob.STATUS_REFRESH_DELAY is set to -1 so that every .status evaluation reaches the refresh code "
               "(the throttle only merges polls that are less than 1 s apart)",
               "the server's 200 answers are well-formed JSON with the documented fields; read time-outs (neither "
               "HTTPError nor ConnectionError) and non-JSON bodies are outside the statement's fault vocabulary",
               "the prefix-tree enumeration copies job objects with copy.deepcopy between siblings; the random stream "
               "runs every trace from a fresh object"]
EXPLANATION = ("Two genuine defects of /repo are re-found on every run and recorded as open findings: execute_async "
               "can be called again on a job that was sent and is still WAITING (second creation request), and the "
               "sixth and later consecutive failed status requests are absorbed again because _handle_status_error "
               "tests `== _MAX_ERROR`.")

URL = "https://c17.verif.invalid"
STATUS_STRINGS = ['waiting', 'running', 'success', 'error', 'canceled', 'suspended', 'cancel_requested', 'unknown',
                  'completed', 'Running', 'COMPLETED', 'cancelled', 'done', '']
STATUS_NAMES = ['WAITING', 'RUNNING', 'SUCCESS', 'ERROR', 'CANCELED', 'SUSPENDED', 'CANCEL_REQUESTED', 'UNKNOWN']
TRANSIENT = [408, 409, 421, 423, 429]
OTHER_HTTP = [400, 401, 403, 404, 410, 422, 500, 502, 503]
KINDS = ['create', 'status', 'cancel', 'rerun', 'result']
ACTS = ['exec', 'poll', 'cancel', 'rerun', 'results', 'sync']
CANCEL_TEXT = 'Cancellation requested by user'


# ------------------------------------------------------------------ answers / events
def ok(v, m=1):
    return ('ok', v, m)


def http(code, m=1):
    return ('http', code, m)


def conn(m=1):
    return ('conn', m)


def ans_tree(a):
    return [0, a[1], a[2]] if a[0] == 'ok' else [1, a[1], a[2]] if a[0] == 'http' else [2, a[1]]


def ev_tree(e):
    act = e['act']
    if act == 'exec':
        return [0, ans_tree(e['a'])]
    if act == 'poll':
        return [1, ans_tree(e['p1'])]
    if act == 'cancel':
        return [2, ans_tree(e['p1']), ans_tree(e['a'])]
    if act == 'rerun':
        return [3, ans_tree(e['p1']), ans_tree(e['p2']), ans_tree(e['a'])]
    if act == 'results':
        return [4, ans_tree(e['p1']), ans_tree(e['p2']), ans_tree(e['a'])]
    return [5, ans_tree(e['a']), [ans_tree(p) for p in e['ps']], ans_tree(e['r'])]


def ev(act, job=0, **kw):
    d = {'act': act, 'job': job}
    d.update(kw)
    return d


class Unexpected(BaseException):
    """A request for which the event carries no answer (the model says it cannot happen)."""


# ------------------------------------------------------------------ the scripted server
class World:
    def __init__(self):
        import responses
        from perceval.runtime.remote_job import RemoteJob
        from perceval.runtime.rpc_handler import RPCHandler
        from perceval.utils.logging import get_logger, level, channel
        RemoteJob.STATUS_REFRESH_DELAY = -1
        for ch in (channel.general, channel.user, channel.resources):
            try:
                get_logger().set_level(level.off, ch)
            except Exception:
                pass
        self.RemoteJob = RemoteJob
        self.handler = RPCHandler("sim:c17", URL, "token")
        self.rm = responses.RequestsMock(assert_all_requests_are_fired=False)
        self.rm.start()
        pat = re.compile(re.escape(URL) + r"/api/job.*")
        self.rm.add_callback(responses.POST, pat, callback=self._cb)
        self.rm.add_callback(responses.GET, pat, callback=self._cb)
        self.log = []
        self.status_q = []
        self.action_a = {}

    def close(self):
        self.rm.stop()
        self.rm.reset()

    def new_job(self):
        data = {'platform_name': 'sim:c17', 'pcvl_version': '0.0.0', 'payload': {'command': 'probs'}}
        return self.RemoteJob(data, self.handler, "c17", refresh_progress_delay=0)

    def begin(self, e):
        self.log = []
        act = e['act']
        if act == 'sync':
            self.status_q = list(e['ps'])
            self.action_a = {'create': e['a'], 'result': e['r']}
        else:
            self.status_q = [e[k] for k in ('p1', 'p2') if k in e]
            self.action_a = {{'exec': 'create', 'cancel': 'cancel', 'rerun': 'rerun', 'results': 'result',
                              'poll': None}[act]: e.get('a')}

    def _cb(self, request):
        from requests.exceptions import ConnectionError
        path = request.url[len(URL):]
        m = re.fullmatch(r"/api/job(?:/(status|cancel|rerun|result)/(.*))?", path)
        if m is None:
            raise Unexpected(f"unknown url {request.url}")
        kind = m.group(1) or 'create'
        jid = None
        if m.group(1):
            jid = None if m.group(2) == 'None' else _id_num(m.group(2))
        if (kind == 'create') != (request.method == 'POST' and m.group(1) is None):
            raise Unexpected(f"bad method for {path}")
        if kind == 'status':
            if not self.status_q:
                raise Unexpected("status request without a scripted answer")
            a = self.status_q.pop(0)
        else:
            a = self.action_a.get(kind)
            if a is None:
                raise Unexpected(f"{kind} request without a scripted answer")
            self.action_a[kind] = None
        self.log.append([KINDS.index(kind), [] if jid is None else [jid], 1 if a[0] == 'ok' else 0])
        if a[0] == 'conn':
            raise ConnectionError(f"msg{a[1]}")
        if a[0] == 'http':
            return (a[1], {}, json.dumps({'error': f"msg{a[2]}"}))
        v, mm = a[1], a[2]
        if kind in ('create', 'rerun'):
            body = {'job_id': f"job-{v}"}
        elif kind == 'status':
            body = {'status': STATUS_STRINGS[v], 'progress': 0.5, 'progress_message': 'phase',
                    'status_message': f"msg{mm}", 'creation_datetime': 1.0, 'start_time': 2.0, 'duration': 3}
        elif kind == 'cancel':
            body = {}
        else:
            body = {'results': json.dumps({'results': {'tag': mm}, 'tag': mm})} if v == 0 else \
                   {'results': None} if v == 1 else {}
        return (200, {}, json.dumps(body))


def _id_num(s):
    if s is None:
        return None
    m = re.fullmatch(r"job-(-?\d+)", s)
    return int(m.group(1)) if m else ('bad-id', s)


def _msg_num(s):
    if s is None:
        return 0
    if s == CANCEL_TEXT:
        return -1
    m = re.fullmatch(r"msg(-?\d+)", str(s))
    return int(m.group(1)) if m else ('bad-msg', str(s))


def white_box(job):
    res = job._results
    return [[] if job._id is None else [_id_num(job._id)], job._job_status.status.value, job._status_refresh_error,
            [] if res is None else [res.get('tag', 'no-tag') if isinstance(res, dict) else 'not-a-dict'],
            _msg_num(job._job_status.stop_message)]


def real_step(world, jobs, e):
    """Run one event on the real objects; returns [requests, result, post-state] in the model's output format."""
    from requests.exceptions import HTTPError, ConnectionError
    job = jobs[e['job']]
    world.begin(e)
    act = e['act']
    try:
        if act == 'exec':
            r = job.execute_async()
            res = [1] if r is job else ['not-self']
        elif act == 'poll':
            s = job.status
            res = [0, s.status.value] if s is job._job_status else ['not-the-status-object']
        elif act == 'cancel':
            r = job.cancel()
            res = [2] if r is None else ['not-none']
        elif act == 'rerun':
            n = job.rerun()
            jobs.append(n)
            wb = white_box(n)
            res = [3, _id_num(n.id)]
            if wb[1:] != [0, 0, [], 0] or n is job:
                res = ['new-job-state', wb]
        else:
            r = job.get_results() if act == 'results' else job.execute_sync()
            res = [4, r.get('tag')] if isinstance(r, dict) else ['not-a-dict']
    except AssertionError:
        res = [5, [0]]
    except HTTPError as x:
        res = [5, [1, x.response.status_code]] if x.response is not None else [5, [3, _msg_num(str(x))]]
    except ConnectionError:
        res = [5, [2]]
    except RuntimeError as x:
        t = str(x)
        m = re.fullmatch(r"Cannot rerun current job because job status is: (\w+) \(should be either CANCELED or ERROR\)", t)
        if t == 'The job is still running, results are not available yet.':
            res = [5, [4]]
        elif t.startswith('The job failed: '):
            res = [5, [5, _msg_num(None if t[16:] == 'None' else t[16:])]]
        elif t == 'Results are not available':
            res = [5, [6]]
        elif t == 'Job is not waiting or running, cannot cancel it':
            res = [5, [7]]
        elif m and m.group(1) in STATUS_NAMES:
            res = [5, [8, STATUS_NAMES.index(m.group(1))]]
        else:
            res = ['RuntimeError', t]
    except Unexpected as x:
        res = ['unexpected-request', str(x)]
    except Exception as x:       # any other exception class is an observable the model does not have
        res = [type(x).__name__, str(x)[:200]]
    return [world.log, res, white_box(job)]


def run_real(world, trace):
    """Fresh job 0; targets are resolved modulo the number of jobs alive. Returns (outs, resolved targets, births)."""
    jobs = [world.new_job()]
    births = [None]            # model id of the job each object was born with (None: built by the user)
    outs, targets = [], []
    for e in trace:
        k = e['job'] % len(jobs)
        targets.append(k)
        n0 = len(jobs)
        outs.append(real_step(world, jobs, dict(e, job=k)))
        if len(jobs) > n0:
            births.append(_id_num(jobs[-1].id))
    return outs, targets, births


def model_requests(trace, targets, births):
    """One model request per job: its own sub-trace. Returns [(job, positions, tree)]."""
    out = []
    for k, b in enumerate(births):
        pos = [i for i, t in enumerate(targets) if t == k]
        if pos:
            out.append((k, pos, [[] if b is None else [b], [ev_tree(trace[i]) for i in pos]]))
    return out


def show_ev(e):
    a = lambda x: 'conn' if x[0] == 'conn' else f"{x[0]}:{x[1]}"
    parts = [f"job{e['job']}.{e['act']}"]
    for k in ('p1', 'p2', 'a', 'r'):
        if k in e:
            parts.append(f"{k}={a(e[k])}")
    if 'ps' in e:
        parts.append("ps=[" + ",".join(a(p) for p in e['ps']) + "]")
    return " ".join(parts)


def compare(trace, outs, targets, births, m_code, m_spec):
    """m_code / m_spec: dict job -> list of model outputs along the job's sub-trace.
    Returns list of (signature, what, step index, expected, observed)."""
    found = []
    for k in range(len(births)):
        pos = [i for i, t in enumerate(targets) if t == k]
        if not pos:
            continue
        mc, ms = m_code[k], m_spec[k]
        spec_live = True
        for n, i in enumerate(pos):
            real = outs[i]
            act = trace[i]['act']
            if n >= len(mc) or real != mc[n]:
                exp = mc[n] if n < len(mc) else None
                what = "requests" if exp and real[0] != exp[0] else "outcome" if exp and real[1] != exp[1] else "state"
                found.append((f"model-mismatch:{act}:{what}",
                              f"real RemoteJob and the model of the code differ at step {i} ({show_ev(trace[i])}) in {what}",
                              i, exp, real))
                break          # states differ from here on
            if spec_live and real != ms[n]:
                spec_live = False
                pre = mc[n - 1][2] if n > 0 else [[] if births[k] is None else [births[k]], 0, 0, [], 0]
                s_res, r_res = ms[n][1], real[1]
                if act in ('exec', 'sync') and pre[0] != [] and any(q[0] == 0 for q in real[0]):
                    sig, what = "double-send", ("execute_async on a job that already has an identifier (sent, still "
                                                "WAITING) sends a second creation request; the statement says at most once")
                elif (s_res[0] == 5 and s_res[1][0] in (1, 2) and r_res != s_res and pre[2] >= 5
                      and real[0][:1] == ms[n][0] and real[0][0][0] == 1 and real[0][0][2] == 0):
                    # the specification stops at a failed status request (6th or later in a row); the code goes on
                    sig, what = "sixth-failure-absorbed", (f"consecutive failed status request number {pre[2] + 1} was "
                                                           "absorbed (returned the last status) instead of being raised")
                else:
                    sig, what = f"spec-divergence:{act}", f"real RemoteJob departs from the specification automaton at step {i}"
                found.append((sig, what + f" [step {i}: {show_ev(trace[i])}]", i, ms[n], real))
    return found


def evaluate(ctx, world, trace):
    outs, targets, births = run_real(world, trace)
    reqs = model_requests(trace, targets, births)
    batch = [(1700, t) for _, _, t in reqs] + [(1702, t) for _, _, t in reqs]
    res = ctx.model.run(batch, jobs=1)
    m_code = {k: res[j] for j, (k, _, _) in enumerate(reqs)}
    m_spec = {k: res[len(reqs) + j] for j, (k, _, _) in enumerate(reqs)}
    return compare(trace, outs, targets, births, m_code, m_spec), outs


def shrink(ctx, world, trace, sig):
    """Delete events while some step still fails with the same signature."""
    cur = list(trace)
    changed = True
    budget = 200
    while changed and budget > 0:
        changed = False
        for i in range(len(cur) - 1, -1, -1):
            cand = cur[:i] + cur[i + 1:]
            budget -= 1
            if budget <= 0:
                break
            f, _ = evaluate(ctx, world, cand)
            if any(x[0] == sig for x in f):
                cur = cand
                changed = True
    return cur


class Reporter:
    def __init__(self, ctx, world):
        self.ctx, self.world, self.done = ctx, world, set()

    def report(self, trace, found):
        for sig, what, i, exp, obs in found:
            self.ctx.count("finding." + sig)
            if sig in self.done:
                continue
            self.done.add(sig)
            small = shrink(self.ctx, self.world, trace, sig)
            _, tg, _ = run_real(self.world, small)
            small = [dict(e, job=t) for e, t in zip(small, tg)]      # targets as resolved
            f, _ = evaluate(self.ctx, self.world, small)
            f = [x for x in f if x[0] == sig] or [(sig, what, i, exp, obs)]
            _, what2, i2, exp2, obs2 = f[0]
            self.ctx.fail(sig, what2, {"trace": small, "shown": [show_ev(e) for e in small], "step": i2},
                          expected=exp2, observed=obs2)


# ------------------------------------------------------------------ alphabets
def compact_alphabet(pos):
    """14 symbols on job 0; identifiers handed out by the server are unique per position."""
    i = 10 * (pos + 1)
    f = conn()          # implicit polls of composite actions meet a connection error (absorbed, counted)
    return [
        ev('exec', a=ok(i)), ev('exec', a=http(400, 2)),
        ev('poll', p1=ok(1)), ev('poll', p1=ok(8)), ev('poll', p1=ok(3, 3)), ev('poll', p1=ok(4, 4)),
        ev('poll', p1=http(429)), ev('poll', p1=http(500)),
        ev('cancel', p1=f, a=ok(0)), ev('cancel', p1=f, a=http(403)),
        ev('rerun', p1=f, p2=f, a=ok(i + 1)), ev('rerun', p1=f, p2=f, a=http(404)),
        ev('results', p1=f, p2=f, a=ok(0, 5)), ev('results', p1=f, p2=f, a=ok(1)),
    ]


def rand_status_ans(rng, bias=None):
    r = rng.below(100)
    if bias == 'fail':
        r = 60 + rng.below(40)
    if r < 60:
        v = rng.choice([0, 1, 1, 1, 5, 6, 7, 8, 2, 3, 4, 9]) if rng.chance(4, 5) else rng.below(len(STATUS_STRINGS))
        return ok(v, rng.rint(1, 9))
    if r < 80:
        return http(rng.choice(TRANSIENT), rng.rint(1, 9))
    if r < 90:
        return conn(rng.rint(1, 9))
    return http(rng.choice(OTHER_HTTP), rng.rint(1, 9))


def rand_plain_ans(rng, v):
    r = rng.below(10)
    if r < 7:
        return ok(v, rng.rint(1, 9))
    if r < 9:
        return http(rng.choice(TRANSIENT + OTHER_HTTP), rng.rint(1, 9))
    return conn(rng.rint(1, 9))


def rand_trace(rng):
    n = rng.rint(5, 25)
    tr = []
    next_id = [1]

    def fresh():
        next_id[0] += 1
        return next_id[0]
    sent_guess = False
    while len(tr) < n:
        job = 0 if rng.chance(2, 3) else rng.below(4)
        r = rng.below(100)
        if not sent_guess and rng.chance(3, 4):
            r = 0
        if r < 10:
            tr.append(ev('exec', job, a=rand_plain_ans(rng, fresh())))
            sent_guess = True
        elif r < 50:
            tr.append(ev('poll', job, p1=rand_status_ans(rng)))
        elif r < 58:       # burst of failed polls on one job (5-8), the retry law's long runs
            for _ in range(rng.rint(4, 8)):
                a = rand_status_ans(rng, 'fail')
                if a[0] == 'http' and a[1] not in TRANSIENT and rng.chance(3, 4):
                    a = http(rng.choice(TRANSIENT), a[2])
                tr.append(ev('poll', job, p1=a))
        elif r < 68:
            tr.append(ev('cancel', job, p1=rand_status_ans(rng), a=rand_plain_ans(rng, 0)))
        elif r < 78:
            tr.append(ev('rerun', job, p1=rand_status_ans(rng), p2=rand_status_ans(rng), a=rand_plain_ans(rng, fresh())))
        elif r < 93:
            tr.append(ev('results', job, p1=rand_status_ans(rng), p2=rand_status_ans(rng),
                         a=rand_plain_ans(rng, rng.choice([0, 0, 0, 1, 2]))))
        else:
            ps = [rand_status_ans(rng) for _ in range(rng.rint(0, 6))] + [ok(rng.choice([8, 2, 3, 4]), rng.rint(1, 9))]
            tr.append(ev('sync', job, a=rand_plain_ans(rng, fresh()), ps=ps, r=rand_plain_ans(rng, rng.choice([0, 0, 1, 2]))))
            sent_guess = True
    return tr


def canon(trace):
    return [ev_tree(e) + [e['job']] for e in trace]


def nontrivial(outs):
    return any(q[0] == 1 for o in outs for q in o[0])


_SAMPLED = set()


def _sample(label, good, trace, outs):
    """One evidence sample per stream: the first non-trivial case of that stream (format: events, then per step
    [requests [endpoint, [id], answered-200], outcome, state [[id], status, failures, [results tag], message]])."""
    if not good or label in _SAMPLED:
        return None
    _SAMPLED.add(label)
    return {"stream": label, "trace": [show_ev(e) for e in trace], "real_and_model_outputs": outs}


# ------------------------------------------------------------------ streams
def stream_exhaustive(ctx, world, rep, L):
    """Prefix tree of all traces of length <= L over the compact alphabet (one job), siblings from deep copies."""
    nsym = len(compact_alphabet(0))
    real = {}                       # tuple of symbol indices -> real output of the last step

    def dfs(prefix, jobs):
        d = len(prefix)
        if d == L:
            return
        alpha = compact_alphabet(d)
        for s in range(nsym):
            js = copy.deepcopy(jobs)
            real[prefix + (s,)] = real_step(world, js, alpha[s])
            dfs(prefix + (s,), js)

    dfs((), [world.new_job()])
    ctx.log(f"exhaustive: {len(real)} real steps executed")
    # model: one run per leaf trace; interior nodes are prefixes of leaves
    leaves = [k for k in real if len(k) == L]
    trees = [[[], [ev_tree(compact_alphabet(d)[s]) for d, s in enumerate(k)]] for k in leaves]
    m_code = ctx.model.run([(1700, t) for t in trees])
    m_spec = ctx.model.run([(1702, t) for t in trees])
    m_patch = ctx.model.run([(1701, t) for t in trees])
    if m_patch != m_spec:
        ctx.fail("model-refinement", "extracted repaired-code model and specification differ on an enumerated trace "
                 "(contradicts theorem C17_refinement_repaired)", {"n": len(trees)})
    for k, mc, ms in zip(leaves, m_code, m_spec):
        trace = [compact_alphabet(d)[s] for d, s in enumerate(k)]
        outs = [real[k[:d + 1]] for d in range(L)]
        found = compare(trace, outs, [0] * L, [None] + [None] * 0, {0: mc}, {0: ms})
        nt = nontrivial(outs)
        ctx.case(["x", list(k)], nt, _sample("exhaustive", nt and outs[-1][1][0] == 5, trace, outs))
        ctx.count("exhaustive.leaf")
        if found:
            rep.report(trace, found)
    ctx.streams[f"exhaustive-length<={L}-alphabet{nsym}"] = len(real)


def stream_retry(ctx, world, rep):
    traces = []
    for k in range(0, 9):
        for bits in range(1 << k):
            fails = [ev('poll', p1=(http(429) if (bits >> b) & 1 else conn())) for b in range(k)]
            traces.append([ev('exec', a=ok(1))] + fails + [ev('poll', p1=ok(1)), ev('poll', p1=http(408))])
    for codes in ([408, 409, 421, 423, 429, 408, 409], [429] * 4 + [500, 429, 429], [429] * 5 + [500]):
        traces.append([ev('exec', a=ok(1))] + [ev('poll', p1=http(c)) for c in codes])
    run_batch(ctx, world, rep, traces, "retry")
    ctx.streams["retry-law-runs<=8"] = len(traces)


def run_batch(ctx, world, rep, traces, label):
    runs = [run_real(world, t) for t in traces]
    reqs, index = [], []
    for ti, (t, (outs, targets, births)) in enumerate(zip(traces, runs)):
        for k, pos, tree in model_requests(t, targets, births):
            index.append((ti, k))
            reqs.append(tree)
    m_code = ctx.model.run([(1700, t) for t in reqs])
    m_spec = ctx.model.run([(1702, t) for t in reqs])
    per = {}
    for (ti, k), a, b in zip(index, m_code, m_spec):
        per.setdefault(ti, ({}, {}))
        per[ti][0][k] = a
        per[ti][1][k] = b
    for ti, (t, (outs, targets, births)) in enumerate(zip(traces, runs)):
        mc, ms = per.get(ti, ({}, {}))
        found = compare(t, outs, targets, births, mc, ms)
        nt = nontrivial(outs)
        ctx.case(canon(t), nt, _sample(label, nt and len(t) >= 6, t, outs))
        ctx.count(label + ".trace")
        for e in t:
            ctx.count("action." + e['act'])
        for o in outs:
            ctx.count("outcome." + ("raise" if o[1][0] == 5 else "return" if isinstance(o[1][0], int) else "other"))
        if len(births) > 1:
            ctx.count(label + ".with-rerun-born-jobs")
        if found:
            rep.report(t, found)


def run(ctx):
    _SAMPLED.clear()
    world = World()
    try:
        rep = Reporter(ctx, world)
        L = 4 if ctx.quick() else 5
        stream_exhaustive(ctx, world, rep, L)
        stream_retry(ctx, world, rep)
        n = ctx.n(600, 6000)
        traces = [rand_trace(ctx.rng) for _ in range(n)]
        run_batch(ctx, world, rep, traces, "random")
        ctx.streams["random-full-alphabet"] = n
        ctx.exhaustive = True
        ctx.notes.append(f"exhaustive = all traces of length <= {L} over the 14-symbol alphabet and all failure runs "
                         "of length <= 8 were enumerated; longer traces are sampled (the theorems cover all lengths)")
        # extraction cross-check on the two witnesses of the refuted theorems
        w1 = [[], [ev_tree(ev('exec', a=ok(1, 0))), ev_tree(ev('exec', a=ok(2, 0)))]]
        w2 = [[], [ev_tree(ev('exec', a=ok(1, 0)))] + [ev_tree(ev('poll', p1=http(429, 0)))] * 6]
        sample = [(1703, w1), (1702, w1), (1703, w2), (1702, w2), (1700, w2)]
        a = ctx.model.run(sample, jobs=1)
        b = ctx.model.vm_crosscheck(sample, "c17")
        ctx.count("vm_compute_crosscheck", len(sample))
        if a != b:
            ctx.fail("extraction-vs-vm_compute", "extracted runner and vm_compute disagree", {"requests": str(sample)},
                     str(b), str(a))
    finally:
        world.close()


def replay(ctx, case):
    world = World()
    try:
        trace = case["case"]["trace"] if "case" in case else case["trace"]
        found, outs = evaluate(ctx, world, trace)
        for e, o in zip(trace, outs):
            print(show_ev(e), "->", o)
        for f in found:
            print("FAIL", f[0], f[1], "expected", f[3], "observed", f[4])
        if not found:
            print("no failure on this trace")
    finally:
        world.close()
