"""C11 — circuit transformations have exactly their advertised algebraic effect."""
from __future__ import annotations
import json
from fractions import Fraction

from ..common import QI, Ang, rand_ang, un_mat, mat_close, frac_of_float
from .. import gen

LEVEL = "proof"
RULE = ("typed circuit trees over the whole vocabulary (BS in the three conventions with a Pythagorean theta and up to four "
        "unequal Pythagorean phases, PS incl. 0 and pi, PERM of size 2-6, exact unitary blocks of size 1-3), nesting depth "
        "<= 3, 2-12 modes; streams: inverse (every tree x (v,h) in {10,01,11}: Circuit.inverse vs faithful model and vs "
        "J/adjoint specification), copy, decompose (decompose_perms merge on/off: listing and matrix; "
        "break_in_2_mode_perms), flatten (Processor with circuits at offsets, loss channels in between: flatten(max_depth), "
        "linear_circuit(flatten), non_unitary_circuit(flatten on/off)), simplify (both display modes; the output circuit's "
        "matrix judged by the proved checker mat_close at 1e-9 and by float comparison), perm-utils (extend_perm, "
        "perm_compose, reduce_perm, invert_permutation, _update_adjacent vs the translated functions), sequences "
        "(programs of 4-10 statements over named circuit variables in ONE process -- new, copy, inverse(v,h) in place, "
        "decompose_perms(merge on/off), simplify(display on/off) -- whose circuits reuse two permutation vectors, so that "
        "equal PERMs recur inside a circuit and across statements; after every statement every circuit that shares no "
        "leaf object with an inverted one is compared with the value semantics of the model; a failure is confirmed and "
        "shrunk in fresh processes). The models follow "
        "/repo as it is now (after db5cda2f, 47d2b926, 4e70c855); the witnesses of the repaired defects stay in the corpus "
        "and the pre-repair behaviour is still recognised, under its old signature, should it return. "
        "Non-trivial: inverse = a BS with >= 2 distinct non-zero phases is present; simplify = >= 2 PERMs with >= 1 component "
        "between them; flatten = a circuit nested in a circuit; distinct by (structure, leaf matrices, flags).")
TRUSTED = ["model: coq/Model/Transform.v, Simplify.v, TransformX.v (hand-written; tied by these correspondence streams)",
           "failure attribution for simplify re-runs the failing input with _update_adjacent replaced in-process "
           "(unittest.mock, after the failure has been established on the unmodified code)"]
ASSUMPTIONS = ["every component object occurs once in a circuit (Circuit.inverse mutates components in place; a shared "
               "object would be inverted twice)",
               "the simplifier's heuristic search (_generate_compatible_perm, _update_perm, _search_empty_space) is an "
               "oracle: its output is validated per instance, the rewrite rules it relies on are proved",
               "symbolic (variable) parameters are outside the stream: all angles are fixed"]

EPS2 = Fraction(1, 10 ** 18)
ONE = Ang(1, 0, 1)


# ------------------------------------------------------------------ trees
def rand_bs(rng, unequal=True):
    cv = rng.below(3)
    t = rand_ang(rng, allow_trivial=rng.chance(1, 8))
    if unequal:
        ph = [rand_ang(rng, allow_trivial=False) if rng.chance(3, 4) else ONE for _ in range(4)]
    else:
        ph = [ONE] * 4
    return {"kind": "BS", "k": 2, "cv": cv, "t": t, "ph": ph}


def rand_leaf(rng, maxk, kinds=("BS", "BS", "PS", "PERM", "PERM", "U")):
    kind = rng.choice([k for k in kinds if maxk >= 2 or k in ("PS", "U")])
    if kind == "BS":
        return rand_bs(rng, unequal=rng.chance(5, 6))
    if kind == "PS":
        return {"kind": "PS", "k": 1, "e": rand_ang(rng)}
    if kind == "PERM":
        n = rng.rint(2, min(maxk, 6))
        return {"kind": "PERM", "k": n, "p": rng.shuffle(range(n))}
    n = rng.rint(1, min(maxk, 3))
    return {"kind": "U", "k": n, "U": gen.rand_unitary_exact(rng, n)}


def rand_circ(rng, m, depth, ncomp, kinds=("BS", "BS", "PS", "PERM", "PERM", "U")):
    items = []
    for _ in range(ncomp):
        if depth > 0 and m >= 2 and rng.chance(1, 3):
            mm = rng.rint(1, m)
            sub = rand_circ(rng, mm, depth - 1, rng.rint(1, 3), kinds)
            items.append((rng.rint(0, m - mm), sub))
        else:
            lf = rand_leaf(rng, m, kinds)
            items.append((rng.rint(0, m - lf["k"]), lf))
    return {"kind": "C", "k": m, "items": items}


def enc(node):
    k = node["kind"]
    if k == "BS":
        t, ph = node["t"], node["ph"]
        return [0, node["cv"], QI(t.cos), QI(t.sin)] + [QI(p.cos, p.sin) for p in ph]
    if k == "PS":
        return [1, QI(node["e"].cos, node["e"].sin)]
    if k == "U":
        return [2, node["k"], node["U"]]
    if k == "PERM":
        return [3, list(node["p"])]
    if k == "LC":
        return [2, 1, [[QI(1)]]]
    return [4, node["k"], [[o, enc(c)] for o, c in node["items"]]]


def _v(x):
    """angle value of an exact angle or of its plain (float) form used by child processes"""
    return x.value if hasattr(x, "value") else x


def plain(node):
    """JSON-able form of a tree (floats instead of exact angles): enough to build the perceval object"""
    k = node["kind"]
    if k == "BS":
        return {"kind": "BS", "k": 2, "cv": node["cv"], "t": _v(node["t"]), "ph": [_v(p) for p in node["ph"]]}
    if k == "PS":
        return {"kind": "PS", "k": 1, "e": _v(node["e"])}
    if k == "PERM":
        return {"kind": "PERM", "k": node["k"], "p": list(node["p"])}
    if k == "C":
        return {"kind": "C", "k": node["k"], "items": [[o, plain(c)] for o, c in node["items"]]}
    raise ValueError(k)


def build(node):
    import perceval as pcvl
    from perceval.components import BS, PS, PERM, Unitary, Circuit, LC
    from perceval.components.unitary_components import BSConvention
    k = node["kind"]
    if k == "BS":
        ph = node["ph"]
        return BS(2 * _v(node["t"]), _v(ph[0]), _v(ph[1]), _v(ph[2]), _v(ph[3]),
                  convention=[BSConvention.Rx, BSConvention.Ry, BSConvention.H][node["cv"]])
    if k == "PS":
        return PS(_v(node["e"]))
    if k == "U":
        return Unitary(pcvl.Matrix(gen.qmat_to_np(node["U"])))
    if k == "PERM":
        return PERM(list(node["p"]))
    if k == "LC":
        return LC(0.1)
    c = Circuit(node["k"])
    for o, ch in node["items"]:
        c.add(o, build(ch), merge=False)
    return c


def show(node):
    k = node["kind"]
    if k == "BS":
        ph = node["ph"]
        return "BS.%s(theta=%.6f, phi_tl=%.6f, phi_bl=%.6f, phi_tr=%.6f, phi_br=%.6f)" % (
            gen.CONV[node["cv"]], 2 * _v(node["t"]), _v(ph[0]), _v(ph[1]), _v(ph[2]), _v(ph[3]))
    if k == "PS":
        return "PS(%.6f)" % _v(node["e"])
    if k == "U":
        return "Unitary(%dx%d exact block)" % (node["k"], node["k"])
    if k == "PERM":
        return "PERM(%s)" % list(node["p"])
    if k == "LC":
        return "LC(0.1)"
    return "Circuit(%d)" % node["k"] + "".join(".add(%d, %s)" % (o, show(c)) for o, c in node["items"])


def key(node):
    k = node["kind"]
    if k == "BS":
        return ["BS", node["cv"], node["t"].key(), [p.key() for p in node["ph"]]]
    if k == "PS":
        return ["PS", node["e"].key()]
    if k == "U":
        return ["U", gen.qmat_key(node["U"])]
    if k == "PERM":
        return ["PERM", list(node["p"])]
    if k == "LC":
        return ["LC"]
    return ["C", node["k"], [[o, key(c)] for o, c in node["items"]]]


def leaves(node, off=0):
    if node["kind"] != "C":
        return [(off, node)]
    out = []
    for o, c in node["items"]:
        out += leaves(c, off + o)
    return out


def depth(node):
    if node["kind"] != "C":
        return 0
    return 1 + max([depth(c) for _, c in node["items"]] or [0])


def np_mat(c):
    import numpy as np
    return [[complex(x) for x in row] for row in np.array(c.compute_unitary()).tolist()]


def listing(c):
    from perceval.components import PERM
    return [[r[0], len(r), (c2.perm_vector if isinstance(c2, PERM) else [])] for r, c2 in c]


def bs_asym(node):
    for _, lf in leaves(node):
        if lf["kind"] == "BS" and len({p.key() for p in lf["ph"] if p.key() != ONE.key()}) >= 2:
            return True
    return False


# ------------------------------------------------------------------ stream: inverse + copy
FIX_SIG = {1: ["bs-inverse-v-unequal-phases"], 2: ["bs-inverse-h-unequal-phases"], 3: ["bs-inverse-vh-ry-theta"],
           4: ["bs-inverse-v-unequal-phases", "bs-inverse-h-unequal-phases"],
           5: ["bs-inverse-v-unequal-phases", "bs-inverse-vh-ry-theta"],
           6: ["bs-inverse-h-unequal-phases", "bs-inverse-vh-ry-theta"],
           7: ["bs-inverse-v-unequal-phases", "bs-inverse-h-unequal-phases", "bs-inverse-vh-ry-theta"]}


def inverse_case(ctx, tree, v, h, mo):
    """Returns list of (signature, what, expected, observed) for one (tree, v, h)."""
    code, exp, oks, old = un_mat(mo[0]), un_mat(mo[1]), mo[2], un_mat(mo[3])
    try:
        c = build(tree)
        c.inverse(v=bool(v), h=bool(h))
        U = np_mat(c)
    except Exception as e:  # a legal circuit must be invertible (all leaves support it)
        return [("inverse-exception-" + type(e).__name__, f"Circuit.inverse(v={v},h={h}) raised {e!r}", None, repr(e))]
    out = []
    if not mat_close(U, code):
        out.append(("inverse-impl-differs-from-model", f"Circuit.inverse(v={v},h={h}): implementation and the model of the "
                    "current code disagree" + (" (it behaves like the code before db5cda2f)" if mat_close(U, old) else ""),
                    str(code), str(U)))
    if not mat_close(U, exp):
        # regression guard: the pre-repair behaviour is recognised and reported under the signature of its defect
        need = next((i for i in range(1, 8) if oks[i] == 1), None)
        sigs = FIX_SIG.get(need, ["inverse-wrong-matrix"]) if (oks[0] == 0 and mat_close(U, old)) else ["inverse-wrong-matrix"]
        for s in sigs:
            out.append((s, f"Circuit.inverse(v={bool(v)}, h={bool(h)}) does not yield "
                        + ("J U^dagger J" if v and h else "J U J" if v else "the adjoint (inverse) matrix"), str(exp), str(U)))
    return out


def stream_inverse(ctx, n):
    rng = ctx.rng.fork("inverse")
    trees = [t for t in corpus_inverse()]
    for i in range(n):
        r = rng.fork(i)
        m = r.rint(2, 5)
        trees.append(rand_circ(r, m, r.rint(0, 2), r.rint(1, 5), kinds=("BS", "BS", "BS", "PS", "PERM", "U")))
    flags = [(1, 0), (0, 1), (1, 1)]
    reqs = [(1101, [enc(t), v, h]) for t in trees for v, h in flags]
    outs = ctx.model.run(reqs)
    reported = set()
    k = 0
    for t in trees:
        for v, h in flags:
            mo = outs[k]
            k += 1
            ctx.case(["inv", key(t), v, h], bs_asym(t), {"stream": "inverse", "circuit": show(t), "v": v, "h": h})
            ctx.count("inverse.v%dh%d" % (v, h))
            for sig, what, exp, obs in inverse_case(ctx, t, v, h, mo):
                case = {"circuit": show(t), "v": v, "h": h}
                if sig not in reported:
                    reported.add(sig)
                    small = shrink_inverse(ctx, t, v, h, sig)
                    if small is not None:
                        case = {"circuit": show(small), "v": v, "h": h, "shrunk_from": show(t)}
                ctx.fail(sig, what, case, exp, obs)
    # copy
    creq = [(1100, enc(t)) for t in trees]
    couts = ctx.model.run(creq)
    for t, mo in zip(trees, couts):
        ctx.case(["copy", key(t)], depth(t) >= 2, None)
        ctx.count("copy")
        try:
            c = build(t)
            before = listing(c)
            c2 = c.copy()
            U, U0 = np_mat(c2), np_mat(c)
            ok_list = listing(c2) == before
        except Exception as e:
            ctx.fail("copy-exception-" + type(e).__name__, f"copy() raised {e!r}", {"circuit": show(t)})
            continue
        E = un_mat(mo[1])
        if not mat_close(U, E) or not mat_close(U0, E):
            ctx.fail("copy-wrong-matrix", "copy() changed the matrix", {"circuit": show(t)}, str(E), str(U))
        if not ok_list:
            ctx.fail("copy-listing", "copy() changed the component listing", {"circuit": show(t)})
    ctx.streams["inverse"] = len(trees) * 3
    ctx.streams["copy"] = len(trees)
    return reqs


def shrink_inverse(ctx, tree, v, h, sig):
    """A single leaf alone that shows the same signature."""
    cands = [lf for _, lf in leaves(tree) if lf["kind"] == "BS"]
    for lf in cands:
        # try to zero phases one at a time while the signature persists
        cur = dict(lf)
        one = {"kind": "C", "k": 2, "items": [(0, cur)]}
        mo = ctx.model.run([(1101, [enc(one), v, h])])[0]
        if not any(s == sig for s, *_ in inverse_case(ctx, one, v, h, mo)):
            continue
        for i in range(4):
            trial = dict(cur)
            trial["ph"] = [ONE if j == i else p for j, p in enumerate(cur["ph"])]
            t1 = {"kind": "C", "k": 2, "items": [(0, trial)]}
            mo1 = ctx.model.run([(1101, [enc(t1), v, h])])[0]
            if any(s == sig for s, *_ in inverse_case(ctx, t1, v, h, mo1)):
                cur = trial
        return {"kind": "C", "k": 2, "items": [(0, cur)]}
    return None


def corpus_inverse():
    a = Ang(3, 4, 5)
    ph = [Ang(3, 4, 5), Ang(5, 12, 13), Ang(8, 15, 17), Ang(7, 24, 25)]
    out = []
    for cv in range(3):
        out.append({"kind": "C", "k": 2, "items": [(0, {"kind": "BS", "k": 2, "cv": cv, "t": a, "ph": ph})]})
        out.append({"kind": "C", "k": 2, "items": [(0, {"kind": "BS", "k": 2, "cv": cv, "t": a, "ph": [ONE] * 4})]})
    return out


# ------------------------------------------------------------------ stream: decompose_perms
def stream_decompose(ctx, n):
    from perceval.components import PERM
    from perceval.components.comp_utils import decompose_perms
    rng = ctx.rng.fork("decompose")
    trees = []
    for i in range(n):
        r = rng.fork(i)
        m = r.rint(2, 7)
        trees.append(rand_circ(r, m, r.rint(0, 2), r.rint(1, 5), kinds=("BS", "PS", "PERM", "PERM", "PERM", "U")))
    outs = ctx.model.run([(1102, enc(t)) for t in trees])
    for t, mo in zip(trees, outs):
        big = any(lf["kind"] == "PERM" and lf["k"] >= 3 for _, lf in leaves(t))
        ctx.case(["dec", key(t)], big, {"stream": "decompose", "circuit": show(t)})
        ctx.count("decompose")
        mlist = [[e[0], e[1], e[2]] for e in mo[0]]
        E = un_mat(mo[2])
        for merge in (True, False):
            try:
                d = decompose_perms(build(t), merge=merge)
                U = np_mat(d)
                L = listing(d)
            except Exception as e:
                ctx.fail("decompose-exception-" + type(e).__name__, f"decompose_perms(merge={merge}) raised {e!r}",
                         {"circuit": show(t)})
                continue
            if not mat_close(U, E):
                ctx.fail("decompose-wrong-matrix", f"decompose_perms(merge={merge}) changed the matrix",
                         {"circuit": show(t), "merge": merge}, str(E), str(U))
            if L != mlist:
                ctx.fail("decompose-listing", f"decompose_perms(merge={merge}): emitted components differ from the model",
                         {"circuit": show(t), "merge": merge}, mlist, L)
            if any(len(e[2]) > 2 for e in L):
                ctx.fail("decompose-leaves-big-perm", "a permutation on more than two modes survived",
                         {"circuit": show(t), "merge": merge}, None, L)
    ctx.streams["decompose"] = len(trees) * 2


# ------------------------------------------------------------------ stream: flatten / regroup
def rand_experiment(rng):
    M = rng.rint(3, 7)
    items = []
    for _ in range(rng.rint(1, 5)):
        c = rng.below(10)
        if c < 5:
            mm = rng.rint(2, M)
            items.append((rng.rint(0, M - mm), rand_circ(rng, mm, rng.rint(0, 2), rng.rint(1, 3))))
        elif c < 8:
            lf = rand_leaf(rng, M)
            items.append((rng.rint(0, M - lf["k"]), lf))
        else:
            items.append((rng.rint(0, M - 1), {"kind": "LC", "k": 1}))
    return M, items


def exp_leaves(items):
    out = []
    for o, t in items:
        out += leaves(t, o)
    return out


def build_processor(M, items):
    from perceval.components import Processor
    p = Processor("SLOS", M)
    for o, t in items:
        p.add(o, build(t))
    return p


def circ_from_list(M, lst):
    from perceval.components import Circuit
    c = Circuit(M)
    for r, comp in lst:
        c.add(tuple(r), comp)
    return c


def stream_flatten(ctx, n):
    from perceval.components import Circuit, Unitary, LC
    rng = ctx.rng.fork("flatten")
    exps = list(corpus_flatten())
    for i in range(n):
        exps.append(rand_experiment(rng.fork(i)))
    depths = [None, 0, 1, 2]
    reqs = [(1103, [M, [[o, enc(t)] for o, t in items], (d if d is not None else [])]) for M, items in exps for d in depths]
    outs = ctx.model.run(reqs)
    k = 0
    regroup_jobs = []
    for M, items in exps:
        has_lc = any(t["kind"] == "LC" for _, t in items)
        nested = any(depth(t) >= 2 for _, t in items)
        text = {"M": M, "program": ["p.add(%d, %s)" % (o, show(t)) for o, t in items]}
        ctx.case(["flat", M, [[o, key(t)] for o, t in items]], nested, dict(text, stream="flatten"))
        ctx.count("flatten.nested" if nested else "flatten.shallow")
        try:
            p = build_processor(M, items)
        except Exception as e:
            ctx.fail("processor-add-exception-" + type(e).__name__, f"Processor.add raised {e!r}", text)
            k += len(depths)
            continue
        mo_none = None
        for d in depths:
            mo = outs[k]
            k += 1
            if d is None:
                mo_none = mo
            lc, lo = mo[0], mo[1]      # listing by the code as it is now / by the code before 47d2b926
            try:
                fl = p.flatten(max_depth=d)
                L = [[r[0], len(r), 1 if isinstance(c, Circuit) else 0] for r, c in fl]
            except Exception as e:
                ctx.fail("flatten-exception-" + type(e).__name__, f"flatten(max_depth={d}) raised {e!r}", dict(text, max_depth=d))
                continue
            bad = L != lc
            if not has_lc:
                try:
                    U = np_mat(circ_from_list(M, fl))
                    bad = bad or not mat_close(U, un_mat(mo[3]))
                except Exception:
                    bad = True
            if bad:
                sig = "flatten-depth2-offset" if (L == lo and lo != lc) else "flatten-wrong-listing"
                ctx.fail(sig, f"Processor.flatten(max_depth={d}) places components on the wrong modes (matrix not preserved)",
                         dict(text, max_depth=d), lc, L)
        lc, lo = mo_none[0], mo_none[1]
        old_like = False
        # linear_circuit(flatten=True/False)
        if not has_lc:
            for flat in (True, False):
                try:
                    c = p.linear_circuit(flatten=flat)
                    U = np_mat(c)
                    L = [[r[0], len(r), 0] for r, _ in c]
                except Exception as e:
                    ctx.fail("linear-circuit-exception-" + type(e).__name__, f"linear_circuit(flatten={flat}) raised {e!r}", text)
                    continue
                if not mat_close(U, un_mat(mo_none[3])) or L != lc:
                    ctx.fail("linear-circuit-wrong", f"linear_circuit(flatten={flat}) does not preserve the matrix / leaf placement",
                             dict(text, flatten=flat), lc, L)
        # non_unitary_circuit
        lvs = exp_leaves(items)
        for flat in (True, False):
            try:
                nu = p.non_unitary_circuit(flatten=flat)
            except Exception as e:
                ctx.fail("non-unitary-exception-" + type(e).__name__, f"non_unitary_circuit(flatten={flat}) raised {e!r}", text)
                continue
            if flat:
                L = [[r[0], len(r), 0] for r, _ in nu]
                if L != lc:
                    old_like = (L == lo)
                    ctx.fail("flatten-depth2-offset" if old_like else "flatten-wrong-listing",
                             "non_unitary_circuit(flatten=True) places components on the wrong modes", text, lc, L)
                continue
            regroup_jobs.append((M, items, text, nu, lvs, lc, old_like))
    # regrouping: runs between loss channels
    rreq, rmeta = [], []
    for M, items, text, nu, lvs, lc, old_like in regroup_jobs:
        for which, lst in (("code", lc), ("spec", lc)):
            run, runs = [], []
            for (off, w, _), (_, lfn) in zip(lst, lvs):
                if lfn["kind"] == "LC":
                    if run:
                        runs.append(("U", run))
                    runs.append(("LC", off))
                    run = []
                else:
                    run.append([off, enc(lfn)])
            if run:
                runs.append(("U", run))
            for kind, r in runs:
                if kind == "U":
                    rreq.append((1104, [M, r]))
                    rreq.append((1100, [4, M, r]))
            rmeta.append(runs)
    routs = ctx.model.run(rreq)
    pos = 0
    mi = 0
    for M, items, text, nu, lvs, lc, old_like in regroup_jobs:
        ctx.count("regroup")
        exp_seq = {}
        for which in ("code", "spec"):
            seq = []
            for kind, r in rmeta[mi]:
                if kind == "LC":
                    seq.append(("LC", r))
                else:
                    a, w, B = routs[pos]
                    full = un_mat(routs[pos + 1][1])
                    pos += 2
                    seq.append(("U", a, w, un_mat(B), full))
            mi += 1
            exp_seq[which] = seq
        obs = []
        for r, c in nu:
            if isinstance(c, Unitary):
                obs.append(("U", r[0], len(r), np_mat(c)))
            else:
                obs.append(("LC", r[0]))

        def same(seq):
            if len(seq) != len(obs):
                return False
            for e, o in zip(seq, obs):
                if e[0] != o[0]:
                    return False
                if e[0] == "LC":
                    if e[1] != o[1]:
                        return False
                elif e[1] != o[1] or e[2] != o[2] or not mat_close(o[3], e[3]):
                    return False
            return True
        if not same(exp_seq["code"]):
            ctx.fail("flatten-depth2-offset" if old_like else "regroup-impl-differs-from-model",
                     "non_unitary_circuit(): blocks differ from the model of the current code", text,
                     [(e[0], e[1]) for e in exp_seq["code"]], [(o[0], o[1]) for o in obs])
        # property: each block, embedded at its range, equals the product of the true components of its segment
        ok = len(exp_seq["spec"]) == len(obs)
        if ok:
            for e, o in zip(exp_seq["spec"], obs):
                if e[0] != o[0] or (e[0] == "LC" and e[1] != o[1]):
                    ok = False
                elif e[0] == "U":
                    emb = [[(1 if i == j else 0) + 0j for j in range(M)] for i in range(M)]
                    for i in range(o[2]):
                        for j in range(o[2]):
                            emb[o[1] + i][o[1] + j] = o[3][i][j]
                    if not mat_close(emb, e[4]):
                        ok = False
        if not ok:
            ctx.fail("flatten-depth2-offset" if old_like else "regroup-wrong-block",
                     "non_unitary_circuit(): a unitary block between non-unitary components is not the product of the "
                     "components of its segment", text)
    ctx.streams["flatten"] = len(exps) * 4
    ctx.streams["regroup"] = len(regroup_jobs)


def corpus_flatten():
    bs = {"kind": "BS", "k": 2, "cv": 0, "t": Ang(3, 4, 5), "ph": [ONE] * 4}
    c2 = {"kind": "C", "k": 2, "items": [(0, bs)]}
    c3 = {"kind": "C", "k": 3, "items": [(1, c2)]}
    c5 = {"kind": "C", "k": 5, "items": [(1, c3)]}
    return [(5, [(0, c5)]), (4, [(1, c3)]), (4, [(1, c3), (0, {"kind": "LC", "k": 1}), (0, dict(bs))])]


# ------------------------------------------------------------------ stream: simplify
def fixed_update_adjacent(adj, r):
    rs = set(r)
    first = None
    i = 0
    while i < len(adj):
        if rs & set(adj[i]):
            if first is None:
                first = i
                i += 1
            else:
                adj[first] = adj[first] + adj[i]
                adj.pop(i)
        else:
            i += 1
    if first is not None:
        adj[first] = sorted(set(adj[first]) | rs)


def run_simplify(tree, display, expected):
    """None if fine, else (kind, detail)."""
    from perceval.utils.algorithms.simplification import simplify
    from perceval.components import Circuit
    try:
        s = simplify(build(tree), display=display)
        if not isinstance(s, Circuit):
            return ("type", repr(type(s)), None)
        U = np_mat(s)
    except Exception as e:
        return ("exception-" + type(e).__name__, repr(e), None)
    if not mat_close(U, expected):
        return ("wrong-matrix", "simplified circuit: " + str([(list(r), c.describe()) for r, c in s]), U)
    return (None, None, U)


def classify_simplify(tree, display, expected, kind):
    """Attribute an established failure: does it disappear when _update_adjacent (only) is repaired?"""
    from unittest import mock
    import perceval.utils.algorithms.simplification as S
    orig = S._update_adjacent

    def sortonly(adj, r):
        orig(adj, r)
        for i in range(len(adj)):
            adj[i] = sorted(adj[i])
    with mock.patch.object(S, "_update_adjacent", sortonly):
        if run_simplify(tree, display, expected)[0] is None:
            return "simplify-group-set-order"
    with mock.patch.object(S, "_update_adjacent", fixed_update_adjacent):
        if run_simplify(tree, display, expected)[0] is None:
            return "simplify-update-adjacent-drops-group"
    return "simplify-" + kind


def rand_simplify_circuit(rng, wide):
    m = rng.rint(9, 12) if wide else rng.rint(2, 7)
    items = []
    style = rng.below(4)
    if style == 0:   # sandwich: PERM, overlapping components, PERM
        n1 = rng.rint(2, m)
        items.append((rng.rint(0, m - n1), {"kind": "PERM", "k": n1, "p": rng.shuffle(range(n1))}))
        for _ in range(rng.rint(1, 4)):
            lf = rand_leaf(rng, min(m, 3), kinds=("BS", "BS", "PS", "U"))
            off = rng.rint(0, m - lf["k"])
            if wide and rng.chance(1, 2) and lf["k"] >= 2:
                off = rng.rint(max(0, 7 - lf["k"] + 1), m - lf["k"])
            items.append((off, lf))
        n2 = rng.rint(2, m)
        items.append((rng.rint(0, m - n2), {"kind": "PERM", "k": n2, "p": rng.shuffle(range(n2))}))
        if rng.chance(1, 3):
            lf = rand_leaf(rng, m)
            items.append((rng.rint(0, m - lf["k"]), lf))
        return {"kind": "C", "k": m, "items": items}
    t = rand_circ(rng, m, 1 if style == 1 else 0, rng.rint(1, 9), kinds=("BS", "PS", "PS", "PERM", "PERM", "PERM", "U"))
    return t


def simplify_nontrivial(tree):
    ks = [lf["kind"] for _, lf in leaves(tree)]
    idx = [i for i, k in enumerate(ks) if k == "PERM"]
    return any(b - a >= 2 for a, b in zip(idx, idx[1:]))


def stream_simplify(ctx, n):
    rng = ctx.rng.fork("simplify")
    trees = list(corpus_simplify())
    for i in range(n):
        trees.append(rand_simplify_circuit(rng.fork(i), wide=(i % 6 == 5)))
    outs = ctx.model.run([(1100, enc(t)) for t in trees])
    close_reqs, close_meta = [], []
    reported = set()
    for t, mo in zip(trees, outs):
        E = un_mat(mo[1])
        for display in (False, True):
            ctx.case(["simp", key(t), display], simplify_nontrivial(t), {"stream": "simplify", "circuit": show(t), "display": display})
            ctx.count("simplify.display" if display else "simplify.compute")
            kind, detail, U = run_simplify(t, display, E)
            if kind is None:
                if len(close_reqs) < ctx.n(150, 1500):
                    B = [[QI(frac_of_float(x.real), frac_of_float(x.imag)) for x in row] for row in U]
                    close_reqs.append((1107, [enc(t), B, EPS2]))
                    close_meta.append((t, display))
                continue
            sig = classify_simplify(t, display, E, kind)
            case = {"circuit": show(t), "display": display, "detail": detail}
            if sig not in reported:
                reported.add(sig)
                small = shrink_simplify(ctx, t, display, sig)
                case = {"circuit": show(small), "display": display, "shrunk_from": show(t)}
            ctx.fail(sig, "simplify() changed the matrix of the circuit" if kind == "wrong-matrix"
                     else f"simplify() failed on a legal circuit ({kind})", case, None, detail)
    # the proved checker judges the implementation's own output (floats read as exact rationals)
    couts = ctx.model.run(close_reqs)
    for (t, display), ok in zip(close_meta, couts):
        ctx.count("simplify.circ_close")
        if ok != 1:
            ctx.fail("simplify-circ-close", "proved checker mat_close rejects the simplified circuit accepted by the float comparison",
                     {"circuit": show(t), "display": display})
    ctx.streams["simplify"] = len(trees) * 2
    ctx.streams["simplify-circ_close"] = len(close_reqs)


def shrink_simplify(ctx, tree, display, sig):
    cur = {"kind": "C", "k": tree["k"], "items": [(o, lf) for o, lf in leaves(tree)]}
    changed = True
    while changed:
        changed = False
        for i in range(len(cur["items"]) - 1, -1, -1):
            cand = {"kind": "C", "k": cur["k"], "items": cur["items"][:i] + cur["items"][i + 1:]}
            if not cand["items"]:
                continue
            E = un_mat(ctx.model.run([(1100, enc(cand))])[0][1])
            kind, _, _ = run_simplify(cand, display, E)
            if kind is not None and classify_simplify(cand, display, E, kind) == sig:
                cur = cand
                changed = True
    return cur


def corpus_simplify():
    def bs(t, tl):
        return {"kind": "BS", "k": 2, "cv": 1, "t": t, "ph": [tl, ONE, ONE, ONE]}
    w1 = {"kind": "C", "k": 4, "items": [(0, {"kind": "PERM", "k": 4, "p": [3, 1, 2, 0]}), (2, bs(Ang(3, 4, 5), Ang(5, 12, 13))),
                                        (1, bs(Ang(8, 15, 17), Ang(7, 24, 25))), (0, {"kind": "PERM", "k": 3, "p": [1, 2, 0]})]}
    w2 = {"kind": "C", "k": 9, "items": [(0, {"kind": "PERM", "k": 9, "p": [5, 6, 7, 4, 3, 0, 8, 1, 2]}), (7, bs(Ang(3, 4, 5), Ang(5, 12, 13))),
                                        (0, {"kind": "PERM", "k": 9, "p": [7, 5, 2, 4, 6, 0, 8, 1, 3]})]}
    return [w1, w2]


# ------------------------------------------------------------------ stream: permutation arithmetic
def stream_perm_utils(ctx, n):
    import perceval.utils.algorithms.simplification as S
    from perceval.components import PERM
    rng = ctx.rng.fork("perm")
    reqs, checks = [], []
    for i in range(n):
        r = rng.fork(i)
        kc = r.rint(1, 6)
        lead, trail = (r.rint(0, 2), r.rint(0, 2)) if r.chance(1, 3) else (0, 0)
        core = list(range(kc)) if r.chance(1, 8) else r.shuffle(range(kc))
        p1 = list(range(lead)) + [x + lead for x in core] + [lead + kc + j for j in range(trail)]
        k1 = len(p1)
        o1 = r.rint(0, 3)
        k2 = r.rint(1, 6)
        p2 = r.shuffle(range(k2))
        o2 = r.rint(0, 3)
        m = max(o1 + k1, o2 + k2) + r.rint(0, 2)
        r1 = tuple(range(o1, o1 + k1))
        r2 = tuple(range(o2, o2 + k2))
        reqs.append((1105, [0, o1, p1, m]))
        checks.append(("extend_perm", (r1, p1, m), S.extend_perm(r1, p1, m)[1]))
        reqs.append((1105, [1, o1, p1, o2, p2]))
        cr, cp = S.perm_compose(r1, p1, r2, p2)
        checks.append(("perm_compose", (r1, p1, r2, p2), cp if list(cr) == list(range(len(cp))) else ["bad-range", list(cr)]))
        reqs.append((1105, [2, o1, p1]))
        rr, rp = S.reduce_perm(r1, p1)
        checks.append(("reduce_perm", (r1, p1), [rr[0] if len(rr) else None, rp]))
        reqs.append((1105, [3, p1]))
        checks.append(("invert_permutation", (p1,), S.invert_permutation(p1)))
        if k1 >= 2:
            reqs.append((1105, [4, p1]))
            b = PERM(list(p1)).break_in_2_mode_perms()
            sw = [r_[0] for r_, _ in b] if k1 != 2 else None
            checks.append(("break_in_2_mode_perms", (p1,), sw))
        # _update_adjacent over a few ranges
        mm = r.rint(2, 8)
        rs = []
        for _ in range(r.rint(1, 4)):
            w = r.rint(1, min(3, mm))
            o = r.rint(0, mm - w)
            rs.append(list(range(o, o + w)))
        adj = [[j] for j in range(mm)]
        for x in rs:
            S._update_adjacent(adj, tuple(x))
        reqs.append((1106, [mm, rs]))
        checks.append(("_update_adjacent", (mm, rs), [list(g) for g in adj]))
    outs = ctx.model.run(reqs)
    for (name, args, impl), mo in zip(checks, outs):
        ctx.case(["perm", name, [list(a) if isinstance(a, (list, tuple)) else a for a in args]], True, None)
        ctx.count("perm." + name)
        if name == "reduce_perm":
            exp = [mo[0] if mo[1] else None, mo[1]]
        elif name == "_update_adjacent":
            exp = mo[0]       # groups in list order, each sorted (the code as it is now)
            if sorted(x for g in impl for x in g) != list(range(args[0])):
                ctx.fail("update-adjacent-loses-modes", "_update_adjacent: a mode belongs to no group",
                         {"fn": name, "args": str(args)}, exp, impl)
            if mo[1] != mo[0]:
                ctx.count("perm._update_adjacent.differs-from-pre-repair-code")
        elif name == "break_in_2_mode_perms" and impl is None:
            continue
        else:
            exp = mo
        if exp != impl:
            ctx.fail("perm-util-" + name, f"{name}{args}: implementation differs from the translated function", {"fn": name, "args": str(args)}, exp, impl)
    ctx.streams["perm-utils"] = len(reqs)


# ------------------------------------------------------------------ stream: sequences of transformations in one process
# Programs over named circuit variables: every transformation must behave like a function of its operand's VALUE,
# whatever was done before in the same process and whatever objects the library shares behind the scenes
# (decompose -> inverse -> decompose again, equal PERMs inside one circuit, transforming a copy, ...).
# After every statement every live variable's matrix is compared with the model's (coq/Model/TransformX.v x_seq).
# Aliasing that the API itself creates (decompose_perms / simplify put the operand's own leaf objects into their
# result) is respected: an in-place inverse of one circuit retires the circuits that share leaves with it.
SEQ_VARS = 5


def seq_rand_tree(rng, m, pvecs):
    items = []
    for _ in range(rng.rint(1, 5)):
        c = rng.below(6)
        if c < 3:
            p = rng.choice(pvecs)
            items.append((rng.rint(0, m - len(p)), {"kind": "PERM", "k": len(p), "p": list(p)}))
        elif c < 5:
            items.append((rng.rint(0, m - 2), rand_bs(rng, unequal=True)))
        else:
            items.append((rng.rint(0, m - 1), {"kind": "PS", "k": 1, "e": rand_ang(rng)}))
    return {"kind": "C", "k": m, "items": items}


def seq_liveness(prog):
    """Per statement: the set of variables whose value is determined (alias groups; see above)."""
    group, nxt, live, out = {}, 0, set(), []
    for s in prog:
        op = s["op"]
        if op in ("new", "copy"):
            tgt = s["v"] if op == "new" else s["dst"]
            group[tgt] = nxt
            nxt += 1
            live.add(tgt)
        elif op in ("dec", "simp"):
            group[s["dst"]] = group[s["src"]]
            live.add(s["dst"])
        else:
            g = group[s["v"]]
            for w in list(live):
                if w != s["v"] and group.get(w) == g:
                    live.discard(w)
        out.append(set(live))
    return out


def gen_seq_program(rng):
    m = rng.rint(4, 6)
    pvecs = []
    while len(pvecs) < 2:
        n = rng.rint(3, min(m, 5))
        p = rng.shuffle(range(n))
        if p != list(range(n)):
            pvecs.append(p)
    prog = [{"op": "new", "v": 0, "tree": seq_rand_tree(rng, m, pvecs)}]
    for _ in range(rng.rint(3, 9)):
        live = sorted(seq_liveness(prog)[-1])
        op = rng.choice(["new", "copy", "inv", "inv", "dec", "dec", "dec", "simp"])
        if op == "new":
            prog.append({"op": "new", "v": rng.below(SEQ_VARS), "tree": seq_rand_tree(rng, m, pvecs)})
        elif not live:
            continue
        elif op == "copy":
            prog.append({"op": "copy", "dst": rng.below(SEQ_VARS), "src": rng.choice(live)})
        elif op == "inv":
            v, h = rng.choice([(0, 1), (0, 1), (1, 0), (1, 1)])
            prog.append({"op": "inv", "v": rng.choice(live), "fv": v, "fh": h})
        elif op == "dec":
            prog.append({"op": "dec", "dst": rng.below(SEQ_VARS), "src": rng.choice(live), "merge": rng.below(2)})
        else:
            prog.append({"op": "simp", "dst": rng.below(SEQ_VARS), "src": rng.choice(live), "display": rng.below(2)})
    return prog


def seq_valid(prog):
    """Every operand is live when used (needed after statements were deleted by the shrinker)."""
    live = set()
    lv = None
    try:
        lv = seq_liveness(prog)
    except KeyError:
        return False
    prev = set()
    for s, cur in zip(prog, lv):
        src = s.get("src", s.get("v") if s["op"] == "inv" else None)
        if src is not None and src not in prev:
            return False
        prev = cur
    return True


def seq_enc(s):
    op = s["op"]
    if op == "new":
        return [0, s["v"], enc(s["tree"])]
    if op == "copy":
        return [1, s["dst"], s["src"]]
    if op == "inv":
        return [2, s["v"], s["fv"], s["fh"]]
    if op == "dec":
        return [3, s["dst"], s["src"], s["merge"]]
    return [4, s["dst"], s["src"]]


def seq_show(s):
    op = s["op"]
    if op == "new":
        return "c%d = %s" % (s["v"], show(s["tree"]))
    if op == "copy":
        return "c%d = c%d.copy()" % (s["dst"], s["src"])
    if op == "inv":
        return "c%d.inverse(v=%s, h=%s)" % (s["v"], bool(s["fv"]), bool(s["fh"]))
    if op == "dec":
        return "c%d = decompose_perms(c%d, merge=%s)" % (s["dst"], s["src"], bool(s["merge"]))
    return "c%d = simplify(c%d, display=%s)" % (s["dst"], s["src"], bool(s["display"]))


def seq_plain(prog):
    return [dict(s, tree=plain(s["tree"])) if s["op"] == "new" else dict(s) for s in prog]


def seq_expected(ctx, prog):
    mo = ctx.model.run([(1108, [seq_enc(s) for s in prog])])[0]
    return [{e[0]: un_mat(e[2]) for e in step} for step in mo]


def seq_exec(prog, expected):
    """Runs the program on the implementation. None, or (index, signature, what, expected, observed)."""
    from perceval.components.comp_utils import decompose_perms
    from perceval.utils.algorithms.simplification import simplify
    env = {}
    lives = seq_liveness(prog)
    for i, (s, live, exp) in enumerate(zip(prog, lives, expected)):
        op = s["op"]
        try:
            if op == "new":
                env[s["v"]] = build(s["tree"])
            elif op == "copy":
                env[s["dst"]] = env[s["src"]].copy()
            elif op == "inv":
                env[s["v"]].inverse(v=bool(s["fv"]), h=bool(s["fh"]))
            elif op == "dec":
                env[s["dst"]] = decompose_perms(env[s["src"]], merge=bool(s["merge"]))
            else:
                env[s["dst"]] = simplify(env[s["src"]], display=bool(s["display"]))
        except Exception as e:
            return (i, f"sequence-{op}-exception-{type(e).__name__}", f"`{seq_show(s)}` raised {e!r}", None, repr(e))
        tgt = s.get("dst", s.get("v"))
        for v in sorted(live):
            U = np_mat(env[v])
            if not mat_close(U, exp[v]):
                if v == tgt:
                    return (i, f"sequence-{op}-wrong-matrix", f"after `{seq_show(s)}` c{v} does not have the matrix the "
                            "transformation must give for the value of its operand", str(exp[v]), str(U))
                return (i, f"sequence-{op}-changed-another-circuit", f"`{seq_show(s)}` changed the matrix of c{v}, which "
                        "shares no component with its target", str(exp[v]), str(U))
    return None


def fixed_ps_inverse(self, v=False, h=False):
    """PS.inverse with the test it means: `is_symbolic()` called (the code tests the bound method, always true)."""
    if h:
        if self._phi.is_symbolic():
            self._phi = self._set_parameter("phi", -self._phi, None, None)
        else:
            self._phi.set_value(-float(self._phi), force=True)


def seq_exec_attr(prog, expected):
    """seq_exec + attribution of an established failure: if it disappears when (only) PS.inverse tests
    is_symbolic() instead of the bound method, it is the known PS.inverse defect."""
    r = seq_exec(prog, expected)
    if r is None:
        return None
    from unittest import mock
    from perceval.components import PS
    with mock.patch.object(PS, "inverse", fixed_ps_inverse):
        if seq_exec(prog, expected) is None:
            return (r[0], "ps-inverse-numeric-phase-becomes-expression", r[2] + " (a numeric PS turned into the expression "
                    "-phi by an earlier inverse(h=True))", r[3], r[4])
    return r


def child_main():
    """Fresh-process evaluation of one program (stdin: JSON {prog, expected}); prints the JSON result."""
    import sys
    d = json.load(sys.stdin)
    exp = [{int(k): [[complex(a, b) for a, b in row] for row in m] for k, m in step.items()} for step in d["expected"]]
    r = seq_exec_attr(d["prog"], exp)
    print("RESULT " + json.dumps(None if r is None else [r[0], r[1], r[2]]))


def seq_child(ctx, prog):
    """(index, signature, what) of the first failure of `prog` in a fresh python process, or None."""
    import subprocess
    import sys
    exp = seq_expected(ctx, prog)
    payload = {"prog": seq_plain(prog),
               "expected": [{str(k): [[[x.real, x.imag] for x in row] for row in m] for k, m in step.items()} for step in exp]}
    p = subprocess.run([sys.executable, "-c", "from harness.props import c11; c11.child_main()"],
                       input=json.dumps(payload).encode(), stdout=subprocess.PIPE, stderr=subprocess.PIPE, timeout=300)
    for line in p.stdout.decode().splitlines():
        if line.startswith("RESULT "):
            return json.loads(line[7:])
    raise RuntimeError("sequence child failed: " + p.stderr.decode()[-800:])


def seq_shrink(ctx, prog, sig, budget=12):
    """Delete statements while the same signature persists in a FRESH process (so the case replays on its own)."""
    cur = list(prog)
    r0 = seq_child(ctx, cur)
    if r0 is not None and r0[1] == sig and r0[0] + 1 < len(cur):
        cur = cur[:r0[0] + 1]          # nothing after the failing statement matters
    changed = True
    while changed and budget > 0:
        changed = False
        for i in range(len(cur) - 1, -1, -1):
            cand = cur[:i] + cur[i + 1:]
            if not cand or not seq_valid(cand) or budget <= 0:
                continue
            budget -= 1
            r = seq_child(ctx, cand)
            if r is not None and r[1] == sig:
                cur = cand
                changed = True
    return cur


def seq_rename(prog, off):
    out = []
    for s in prog:
        t = dict(s)
        for k in ("v", "dst", "src"):
            if k in t:
                t[k] = t[k] + off
        out.append(t)
    return out


def stream_sequences(ctx, n):
    rng = ctx.rng.fork("sequences")
    progs = list(corpus_sequences())
    for i in range(n):
        progs.append(gen_seq_program(rng.fork(i)))
    outs = ctx.model.run([(1108, [seq_enc(s) for s in p]) for p in progs])
    reported = set()
    history = []
    for p, mo in zip(progs, outs):
        exp = [{e[0]: un_mat(e[2]) for e in step} for step in mo]
        ops = [s["op"] for s in p]
        nontrivial = any(a in ("dec", "simp", "copy") for a in ops) and "inv" in ops and len(p) >= 4
        ctx.case(["seq", [[s["op"], s.get("v"), s.get("dst"), s.get("src"), s.get("fv"), s.get("fh"), s.get("merge"),
                           s.get("display"), key(s["tree"]) if "tree" in s else None] for s in p]], nontrivial,
                 {"stream": "sequences", "program": [seq_show(s) for s in p]})
        for a in ops:
            ctx.count("sequences." + a)
        history.append(p)
        r = seq_exec_attr(p, exp)
        if r is None:
            continue
        idx, sig, what, e_, o_ = r
        case = {"program": [seq_show(s) for s in p], "failing_statement_index": idx}
        if sig not in reported:
            reported.add(sig)
            alone = seq_child(ctx, p)
            if alone is not None and alone[1] == sig:
                small = seq_shrink(ctx, p, sig)
                case = {"program": [seq_show(s) for s in small], "replays_in_a_fresh_process": True,
                        "shrunk_from": [seq_show(s) for s in p]}
            else:
                # the failure needs what earlier programs of this process left behind: keep the shortest suffix of
                # the history (variables renamed apart) that reproduces it in a fresh process, then shrink that
                k, found = 1, None
                while k <= 16:
                    tail = history[-min(k, len(history)):]
                    cat = [s for j, q in enumerate(tail) for s in seq_rename(q, j * SEQ_VARS)]
                    rr = seq_child(ctx, cat)
                    if rr is not None and rr[1] == sig:
                        found = cat
                        break
                    if k >= len(history):
                        break
                    k *= 2
                if found is not None:
                    small = seq_shrink(ctx, found, sig)
                    case = {"program": [seq_show(s) for s in small], "replays_in_a_fresh_process": True,
                            "note": "needs the state left by earlier statements of the same process"}
                else:
                    case["replays_in_a_fresh_process"] = False
        ctx.fail(sig, what, case, e_, o_)
    ctx.streams["sequences"] = len(progs)


def corpus_sequences():
    """Shapes of past misses (no literal witness): decompose -> inverse -> decompose an equal permutation again;
    two equal permutations in one circuit, decomposed without merging, then inverted; transform a copy."""
    a, b = Ang(3, 4, 5), Ang(5, 12, 13)
    bs1 = {"kind": "BS", "k": 2, "cv": 0, "t": a, "ph": [b, ONE, a, ONE]}
    out = []
    for p in ([1, 2, 0], [1, 2, 3, 0], [2, 0, 3, 1]):
        n = len(p)
        t1 = {"kind": "C", "k": n + 1, "items": [(0, dict(bs1)), (0, {"kind": "PERM", "k": n, "p": p}), (1, dict(bs1))]}
        t2 = {"kind": "C", "k": n + 1, "items": [(1, {"kind": "PERM", "k": n, "p": p}), (0, dict(bs1))]}
        t3 = {"kind": "C", "k": n, "items": [(0, {"kind": "PERM", "k": n, "p": p}), (0, dict(bs1)), (0, {"kind": "PERM", "k": n, "p": p})]}
        for merge in (0, 1):
            out.append([{"op": "new", "v": 0, "tree": t1}, {"op": "dec", "dst": 1, "src": 0, "merge": merge},
                        {"op": "inv", "v": 1, "fv": 0, "fh": 1}, {"op": "new", "v": 2, "tree": t2},
                        {"op": "dec", "dst": 3, "src": 2, "merge": 1 - merge}])
            out.append([{"op": "new", "v": 0, "tree": t3}, {"op": "dec", "dst": 1, "src": 0, "merge": merge},
                        {"op": "inv", "v": 1, "fv": 0, "fh": 1}])
        out.append([{"op": "new", "v": 0, "tree": t1}, {"op": "copy", "dst": 1, "src": 0}, {"op": "inv", "v": 1, "fv": 1, "fh": 1},
                    {"op": "dec", "dst": 2, "src": 0, "merge": 0}, {"op": "copy", "dst": 3, "src": 2}, {"op": "inv", "v": 3, "fv": 0, "fh": 1},
                    {"op": "simp", "dst": 4, "src": 0, "display": 0}])
    return out


# ------------------------------------------------------------------ run
def run(ctx):
    inv_reqs = stream_inverse(ctx, ctx.n(120, 1500))
    ctx.log("inverse/copy done")
    stream_decompose(ctx, ctx.n(100, 1500))
    ctx.log("decompose done")
    stream_flatten(ctx, ctx.n(150, 2500))
    ctx.log("flatten done")
    stream_simplify(ctx, ctx.n(800, 9000))
    ctx.log("simplify done")
    stream_perm_utils(ctx, ctx.n(300, 3000))
    ctx.log("perm-utils done")
    stream_sequences(ctx, ctx.n(250, 4000))
    ctx.log("sequences done")
    sample = inv_reqs[18:18 + (3 if ctx.quick() else 20)] + [(1105, [4, [2, 0, 3, 1]]), (1106, [4, [[2, 3], [1, 2]]])]
    a = ctx.model.run(sample)
    b = ctx.model.vm_crosscheck(sample, "c11")
    ctx.count("vm_compute_crosscheck", len(sample))
    if a != b:
        ctx.fail("extraction-vs-vm_compute", "extracted runner and vm_compute disagree", {"n": len(sample)})
    ctx.streams["vm_compute-crosscheck"] = len(sample)
    for f in ctx.failures:
        ctx.count("failing." + f["signature"])


def replay(ctx, case):
    print(json.dumps(case, indent=1))
