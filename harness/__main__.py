import sys
from .framework import main
sys.exit(main())
