"""Shared harness machinery: PRNG, sx encoding, model runner, Coq build + audit, verdict, evidence."""
from __future__ import annotations
import hashlib
import json
import math
import os
import re
import subprocess
import sys
import time
from fractions import Fraction

VERIF = os.path.dirname(os.path.dirname(os.path.abspath(__file__)))
COQ = os.path.join(VERIF, "coq")
OCAML = os.path.join(VERIF, "ocaml")
REPO = os.environ.get("VERIF_REPO", "/repo")
ALLOWED_AXIOMS = {
    "ClassicalDedekindReals.sig_not_dec",
    "ClassicalDedekindReals.sig_forall_dec",
    "FunctionalExtensionality.functional_extensionality_dep",
}
FORBIDDEN = re.compile(r"\b(Admitted|admit|Axiom|Axioms|Parameter|Parameters|Conjecture|Conjectures|"
                       r"Unset\s+Guard|bypass_check|Admit\s+Obligations|native_compute|type-in-type)\b")


# ------------------------------------------------------------------ PRNG
class Rng:
    """SplitMix64: every random choice of a run derives from (VERIF_SEED, property id)."""
    M = (1 << 64) - 1

    def __init__(self, seed: int, label: str = ""):
        h = hashlib.sha256(f"{seed}:{label}".encode()).digest()
        self.s = int.from_bytes(h[:8], "big")

    def next(self) -> int:
        self.s = (self.s + 0x9E3779B97F4A7C15) & self.M
        z = self.s
        z = ((z ^ (z >> 30)) * 0xBF58476D1CE4E5B9) & self.M
        z = ((z ^ (z >> 27)) * 0x94D049BB133111EB) & self.M
        return z ^ (z >> 31)

    def below(self, n: int) -> int:
        return self.next() % n

    def rint(self, lo: int, hi: int) -> int:
        return lo + self.below(hi - lo + 1)

    def choice(self, xs):
        return xs[self.below(len(xs))]

    def chance(self, num: int, den: int) -> bool:
        return self.below(den) < num

    def shuffle(self, xs):
        xs = list(xs)
        for i in range(len(xs) - 1, 0, -1):
            j = self.below(i + 1)
            xs[i], xs[j] = xs[j], xs[i]
        return xs

    def fork(self, label) -> "Rng":
        return Rng(self.next(), str(label))


# ------------------------------------------------------------------ exact numbers
PYTH = [(3, 4, 5), (5, 12, 13), (8, 15, 17), (7, 24, 25), (20, 21, 29), (12, 35, 37), (9, 40, 41), (28, 45, 53),
        (11, 60, 61), (16, 63, 65), (33, 56, 65), (48, 55, 73), (13, 84, 85), (36, 77, 85), (39, 80, 89), (65, 72, 97)]


class Ang:
    """An angle whose cosine and sine are exact rationals: cos = a/c, sin = b/c (a^2+b^2=c^2)."""

    def __init__(self, a: int, b: int, c: int):
        self.cos = Fraction(a, c)
        self.sin = Fraction(b, c)
        self.value = math.atan2(b, a)

    def key(self):
        return (self.cos, self.sin)


def rand_ang(rng: Rng, allow_trivial=True) -> Ang:
    k = rng.below(20)
    if allow_trivial and k == 0:
        return Ang(1, 0, 1)
    if allow_trivial and k == 1:
        return Ang(0, 1, 1)
    if allow_trivial and k == 2:
        return Ang(-1, 0, 1)
    a, b, c = rng.choice(PYTH)
    if rng.chance(1, 2):
        a, b = b, a
    if rng.chance(1, 2):
        a = -a
    if rng.chance(1, 2):
        b = -b
    return Ang(a, b, c)


def frac_of_float(x: float) -> Fraction:
    return Fraction(*float(x).as_integer_ratio())


# ------------------------------------------------------------------ sx
def sx(x) -> str:
    """Encode ints / Fractions / complex-as-pair / nested lists as the runner's tree syntax."""
    if isinstance(x, bool):
        return "1" if x else "0"
    if isinstance(x, int):
        return str(x)
    if isinstance(x, Fraction):
        return f"({x.numerator} {x.denominator})"
    if isinstance(x, QI):
        return f"({sx(x.re)} {sx(x.im)})"
    if isinstance(x, (list, tuple)):
        return "(" + " ".join(sx(y) for y in x) + ")"
    raise TypeError(type(x))


class QI:
    """Gaussian rational (exact complex)."""
    __slots__ = ("re", "im")

    def __init__(self, re=0, im=0):
        self.re = Fraction(re)
        self.im = Fraction(im)

    def __mul__(self, o):
        o = o if isinstance(o, QI) else QI(o)
        return QI(self.re * o.re - self.im * o.im, self.re * o.im + self.im * o.re)

    __rmul__ = __mul__

    def __add__(self, o):
        o = o if isinstance(o, QI) else QI(o)
        return QI(self.re + o.re, self.im + o.im)

    def __neg__(self):
        return QI(-self.re, -self.im)

    def conj(self):
        return QI(self.re, -self.im)

    def __complex__(self):
        return complex(float(self.re), float(self.im))

    def __repr__(self):
        return f"QI({self.re},{self.im})"

    def key(self):
        return (self.re, self.im)


def parse_sx(s: str):
    toks = re.findall(r"\(|\)|-?\d+", s)
    pos = 0

    def item():
        nonlocal pos
        t = toks[pos]
        pos += 1
        if t == "(":
            out = []
            while toks[pos] != ")":
                out.append(item())
            pos += 1
            return out
        return int(t)

    return item()


def un_q(x) -> Fraction:
    return Fraction(x[0], x[1])


def un_qi(x) -> complex:
    return complex(float(un_q(x[0])), float(un_q(x[1])))


def un_mat(x):
    return [[un_qi(e) for e in row] for row in x]


# ------------------------------------------------------------------ model runner
class Model:
    """Batch interface to the extracted runner (ocaml/modelrun). Requests: (fid, tree)."""

    def __init__(self):
        self.exe = os.path.join(OCAML, "modelrun")
        self.calls = 0

    def run(self, requests, timeout=3600, jobs=16):
        """Answers in request order; large batches are split over `jobs` runner processes."""
        if not requests:
            return []
        if jobs > 1 and len(requests) >= 2 * jobs:
            from concurrent.futures import ThreadPoolExecutor
            chunks = [requests[i::jobs] for i in range(jobs)]
            with ThreadPoolExecutor(jobs) as ex:
                parts = list(ex.map(lambda c: self.run(c, timeout, 1), chunks))
            out = [None] * len(requests)
            for i, part in enumerate(parts):
                out[i::jobs] = part
            return out
        data = "\n".join(f"{fid} {sx(arg)}" for fid, arg in requests) + "\n"
        p = subprocess.run([self.exe], input=data.encode(), stdout=subprocess.PIPE, stderr=subprocess.PIPE,
                           timeout=timeout, preexec_fn=_unlimit_stack)
        if p.returncode != 0:
            raise RuntimeError(f"model runner failed rc={p.returncode}: {p.stderr.decode()[:2000]}")
        lines = p.stdout.decode().splitlines()
        if len(lines) != len(requests):
            raise RuntimeError(f"model runner: {len(lines)} answers for {len(requests)} requests")
        self.calls += len(requests)
        return [parse_sx(l) if l != "STACK_OVERFLOW" else None for l in lines]

    def vm_crosscheck(self, requests, tag="x"):
        """Evaluate the same requests inside Coq with vm_compute (the zero-glue path); returns trees."""
        os.makedirs(os.path.join(VERIF, ".work"), exist_ok=True)
        path = os.path.join(VERIF, ".work", f"cases_{tag}_{os.getpid()}.v")

        def coq(x):
            if isinstance(x, bool):
                return f"I {int(x)}"
            if isinstance(x, int):
                return f"I ({x})"
            if isinstance(x, Fraction):
                return f"L [I ({x.numerator}); I {x.denominator}]"
            if isinstance(x, QI):
                return f"L [{coq(x.re)}; {coq(x.im)}]"
            return "L [" + "; ".join(coq(y) for y in x) + "]"

        with open(path, "w") as f:
            f.write("From PV Require Import Model.Exec.\nOpen Scope Z_scope.\n")
            for i, (fid, arg) in enumerate(requests):
                f.write(f"Definition r{i} := Eval vm_compute in dispatch {fid} ({coq(arg)}).\n")
            f.write("Set Printing Width 1000000.\nSet Printing Depth 1000000.\n")
            for i in range(len(requests)):
                f.write(f"Print r{i}.\n")
        try:
            p = subprocess.run(["coqc", "-Q", COQ, "PV", path], stdout=subprocess.PIPE, stderr=subprocess.PIPE,
                               timeout=900, cwd=os.path.join(VERIF, ".work"))
            if p.returncode != 0:
                raise RuntimeError("vm_compute cross-check failed to compile: " + p.stderr.decode()[:2000])
            out = p.stdout.decode()
        finally:
            for ext in (".v", ".vo", ".vok", ".vos", ".glob"):
                try:
                    os.remove(path[:-2] + ext)
                except OSError:
                    pass
            try:
                os.remove(os.path.join(os.path.dirname(path), "." + os.path.basename(path)[:-2] + ".aux"))
            except OSError:
                pass
        res = []
        for m in re.finditer(r"r\d+ = (.*?)\n\s*: sx", out, re.S):
            res.append(_parse_coq_sx(m.group(1)))
        return res


def _parse_coq_sx(s: str):
    toks = re.findall(r"\[|\]|;|I|L|\(|\)|-?\d+", s)
    pos = 0

    def item():
        nonlocal pos
        t = toks[pos]
        if t == "(":
            pos += 1
            r = item()
            assert toks[pos] == ")"
            pos += 1
            return r
        if t == "I":
            pos += 1
            if toks[pos] == "(":
                pos += 1
                v = int(toks[pos])
                pos += 2
            else:
                v = int(toks[pos])
                pos += 1
            return v
        if t == "L":
            pos += 1
            assert toks[pos] == "["
            pos += 1
            out = []
            while toks[pos] != "]":
                if toks[pos] == ";":
                    pos += 1
                    continue
                out.append(item())
            pos += 1
            return out
        raise ValueError(f"unexpected token {t}")

    return item()


def _unlimit_stack():
    import resource
    try:
        resource.setrlimit(resource.RLIMIT_STACK, (resource.RLIM_INFINITY, resource.RLIM_INFINITY))
    except Exception:
        pass


# ------------------------------------------------------------------ Coq build and audit
def sh(cmd, timeout, cwd=None):
    p = subprocess.run(cmd, shell=True, stdout=subprocess.PIPE, stderr=subprocess.STDOUT, timeout=timeout, cwd=cwd)
    return p.returncode, p.stdout.decode(errors="replace")


def build_all(log):
    """Incremental full .vo build of the development + extraction + runner. Returns (ok, text)."""
    t0 = time.time()
    if not os.path.exists(os.path.join(COQ, "Makefile")):
        rc, out = sh("coq_makefile -f _CoqProject -o Makefile", 120, COQ)
        if rc != 0:
            return False, out
    rc, out = sh("timeout 1700 make -j16 2>&1 | tail -40", 1800, COQ)
    if rc != 0 or "Error" in out:
        return False, out
    rc, out2 = sh("timeout 600 make -s runner 2>&1 | tail -20", 700, OCAML)
    if rc != 0 or not os.path.exists(os.path.join(OCAML, "modelrun")):
        return False, out2
    log(f"build ok in {time.time() - t0:.1f}s")
    return True, out + out2


def audit_sources():
    """grep-level audit of every .v file of the development."""
    bad = []
    for root, _, files in os.walk(COQ):
        for fn in files:
            if fn.endswith(".v"):
                path = os.path.join(root, fn)
                txt = open(path).read()
                txt_nc = re.sub(r"\(\*.*?\*\)", "", txt, flags=re.S)
                for m in FORBIDDEN.finditer(txt_nc):
                    bad.append(f"{os.path.relpath(path, COQ)}: forbidden token {m.group(0)!r}")
                # Variable/Hypothesis outside a Section
                depth = 0
                for line in txt_nc.splitlines():
                    ls = line.strip()
                    if re.match(r"Section\s+\w+", ls):
                        depth += 1
                    elif re.match(r"End\s+\w+\s*\.", ls) and depth > 0:
                        depth -= 1
                    elif depth == 0 and re.match(r"(Variable|Variables|Hypothesis|Hypotheses|Context)\b", ls):
                        bad.append(f"{os.path.relpath(path, COQ)}: {ls.split()[0]} outside a section")
    return bad


def check_props(pid: str):
    """Compile Props/<pid>.v (always, to get the Print Assumptions output). Returns dict."""
    files = [f"Props/{pid}.v"] + ([f"Props/{pid}ext.v"] if os.path.exists(os.path.join(COQ, "Props", f"{pid}ext.v")) else [])
    rc, out, theorems = 0, "", []
    for rel in files:          # Props/<pid>ext.v holds later extensions of the same property
        r1, o1 = sh(f"timeout 600 coqc -Q . PV {rel}", 650, COQ)
        rc, out = rc or r1, out + o1
        theorems += re.findall(r"^(?:Theorem|Lemma)\s+(\w+)", open(os.path.join(COQ, rel)).read(), flags=re.M)
    res = {"ok": rc == 0, "output": out, "theorems": theorems, "axioms": {}, "bad_axioms": [], "closed": 0}
    if rc != 0:
        return res
    blocks = re.split(r"(?=^Closed under the global context|^Axioms:)", out, flags=re.M)
    n_blocks = 0
    for b in blocks:
        if b.startswith("Closed under"):
            n_blocks += 1
            res["closed"] += 1
        elif b.startswith("Axioms:"):
            n_blocks += 1
            names = re.findall(r"^([A-Za-z_][\w.']*)\s*(?::|$)", b[len("Axioms:"):], flags=re.M)
            for nme in names:
                res["axioms"][nme] = res["axioms"].get(nme, 0) + 1
                if nme not in ALLOWED_AXIOMS:
                    res["bad_axioms"].append(nme)
    res["assumption_blocks"] = n_blocks
    if n_blocks < len(theorems):
        res["ok"] = False
        res["output"] += f"\n[audit] {len(theorems)} theorems but only {n_blocks} Print Assumptions blocks"
    return res


# ------------------------------------------------------------------ comparison helpers
def close(a: complex, b: complex, tol=1e-9) -> bool:
    return abs(complex(a) - complex(b)) <= tol


def mat_close(A, B, tol=1e-9):
    if len(A) != len(B):
        return False
    for ra, rb in zip(A, B):
        if len(ra) != len(rb):
            return False
        for x, y in zip(ra, rb):
            if not close(x, y, tol):
                return False
    return True


def canon_hash(obj) -> str:
    return hashlib.sha256(json.dumps(obj, sort_keys=True, default=str).encode()).hexdigest()[:16]


def coqchk(pid: str, timeout=2400):
    """Independent re-check of Props/<pid>.vo and everything it depends on; returns (ok, axioms, text)."""
    rc, out = sh(f"timeout {timeout} coqchk -silent -o -Q . PV PV.Props.{pid}", timeout + 60, COQ)
    axioms = []
    m = re.search(r"\* Axioms:(.*?)\n\s*\n\* Constants/Inductives relying on type-in-type:(.*?)\n\s*\n\* Constants/Inductives relying on unsafe \(co\)fixpoints:(.*?)\n\s*\n\* Inductives whose positivity is assumed:(.*)", out, re.S)
    ok = rc == 0 and m is not None
    bad = []
    if m:
        ax = m.group(1).strip()
        if ax and ax != "<none>":
            axioms = [l.strip() for l in ax.splitlines() if l.strip()]
        for grp in (2, 3, 4):
            g = m.group(grp).strip()
            if g and g != "<none>":
                bad.append(g)
    # coqchk lists the axioms of every LOADED library (e.g. Classical_Prop.classic comes with Coq.Reals even though no
    # theorem of ours depends on it: Print Assumptions is the per-theorem audit). Axioms declared by the standard
    # library are reported; an axiom declared anywhere else (this development, another library) is a failure.
    for a in axioms:
        if not a.startswith("Coq."):
            bad.append(a)
    return ok and not bad, axioms, out[-1500:]


# ------------------------------------------------------------------ models regenerated from the source text
GEN_TARGETS = {          # property -> generated files (translator/py2gallina.py) tied to its model by GenProofs/<name>P.v
    "C14": ["GenParam"], "C04": ["GenSimulator", "GenFilter"], "C17": ["GenRemoteJob", "GenRemoteGuards"],
    "C11": ["GenPerm", "GenReduce"], "C08": ["GenDetector"], "C10": ["GenConnector"], "C06": ["GenSource"],
    "C07": ["GenLoss"],
}


def regenerate(pid: str):
    """Re-translate the property's target functions from REPO's current source and re-check the lemmas
    `*_src_equiv` that tie the generated definitions to the hand-written model. Fail-closed."""
    names = GEN_TARGETS.get(pid, [])
    info = {"lemmas": [], "broken": [], "generated": []}
    if not names:
        return info
    sys.path.insert(0, os.path.join(VERIF, "translator"))
    try:
        import py2gallina
        res = py2gallina.main(REPO, os.path.join(COQ, "Gen"), set(names))
    except Exception as e:      # translator crashed: fail closed
        res = {n: f"translator exception {type(e).__name__}: {e}" for n in names}
    for n in names:
        proof = os.path.join(COQ, "GenProofs", n + "P.v")
        lemmas = re.findall(r"^(?:Lemma|Theorem)\s+(\w*_src_equiv\w*)", open(proof).read(), flags=re.M)
        info["lemmas"] += lemmas
        if res.get(n):
            info["broken"].append((f"translator:{n}", res[n]))
            continue
        info["generated"].append(n)
        rc, out = sh(f"timeout 300 coqc -Q . PV Gen/{n}.v && timeout 600 coqc -Q . PV GenProofs/{n}P.v", 950, COQ)
        if rc != 0:
            info["broken"].append((f"gen-proof:{n}P.v ({', '.join(lemmas)})", out[-2500:]))
        else:
            for a in re.findall(r"^Axioms:\n((?:.+\n)+)", out, flags=re.M):
                info["broken"].append((f"gen-proof-axioms:{n}P.v", a))
    return info
