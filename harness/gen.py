"""Generators shared by several properties: exact unitary blocks, elementary components, Fock states."""
from __future__ import annotations
import math
from fractions import Fraction

from .common import QI, Ang, rand_ang, Rng

CONV = ["Rx", "Ry", "H"]


def qmat_mul(A, B):
    n, m, k = len(A), len(B[0]), len(B)
    return [[sum((A[i][l] * B[l][j] for l in range(k)), QI(0)) for j in range(m)] for i in range(n)]


def qmat_id(n):
    return [[QI(1 if i == j else 0) for j in range(n)] for i in range(n)]


def qmat_embed(m, off, A):
    M = qmat_id(m)
    for i, row in enumerate(A):
        for j, x in enumerate(row):
            M[off + i][off + j] = x
    return M


def bs_exact(cv: int, t: Ang, phs):
    """The documented BS matrix with exact entries (same formula as coq/Model/Components.v, used only to
    build *inputs* such as Unitary blocks; component matrices that are compared come from the Coq model)."""
    c, s = QI(t.cos), QI(t.sin)
    e = [QI(p.cos, p.sin) for p in phs]  # tl bl tr br
    tl, bl, tr, br = e
    ii = QI(0, 1)
    if cv == 0:
        return [[tl * tr * c, ii * (tr * bl * s)], [ii * (tl * br * s), br * bl * c]]
    if cv == 1:
        return [[tl * tr * c, -(tr * bl * s)], [tl * br * s, br * bl * c]]
    return [[tl * tr * c, tr * bl * s], [tl * br * s, -(br * bl * c)]]


def rand_unitary_exact(rng: Rng, n: int, layers: int = None):
    """Exact (Gaussian-rational) unitary: product of Pythagorean Givens blocks (convention Ry: non-symmetric)
    and unit phases. Deliberately non-symmetric."""
    U = qmat_id(n)
    layers = layers if layers is not None else n + 1
    for _ in range(layers):
        for off in rng.shuffle(range(n - 1)):
            if rng.chance(4, 5):
                t = rand_ang(rng, allow_trivial=False)
                ph = [rand_ang(rng) if rng.chance(1, 2) else Ang(1, 0, 1) for _ in range(4)]
                U = qmat_mul(qmat_embed(n, off, bs_exact(rng.choice([0, 1, 1, 2]), t, ph)), U)
    if n == 1:
        p = rand_ang(rng)
        U = [[QI(p.cos, p.sin)]]
    return U


def qmat_to_np(U):
    import numpy as np
    return np.array([[complex(x) for x in row] for row in U], dtype=complex)


def qmat_key(U):
    return [[x.key() for x in row] for row in U]


def perm_exact(p):
    n = len(p)
    M = [[QI(0) for _ in range(n)] for _ in range(n)]
    for i, v in enumerate(p):
        M[v][i] = QI(1)
    return M


class Leaf:
    """An elementary component with an exact matrix and a recipe to build the perceval object."""

    def __init__(self, kind, k, U, args):
        self.kind, self.k, self.U, self.args = kind, k, U, args

    def build(self):
        import perceval as pcvl
        from perceval.components import BS, PS, PERM, Unitary
        from perceval.components.unitary_components import BSConvention
        if self.kind == "BS":
            cv, th, ph = self.args
            return BS(th, ph[0], ph[1], ph[2], ph[3], convention=[BSConvention.Rx, BSConvention.Ry, BSConvention.H][cv])
        if self.kind == "PS":
            return PS(self.args[0])
        if self.kind == "PERM":
            return PERM(list(self.args[0]))
        if self.kind == "U":
            return Unitary(pcvl.Matrix(qmat_to_np(self.U)))
        raise ValueError(self.kind)

    def describe(self):
        if self.kind == "BS":
            cv, th, ph = self.args
            return f"BS.{CONV[cv]}({th!r}, {ph[0]!r}, {ph[1]!r}, {ph[2]!r}, {ph[3]!r})"
        if self.kind == "PS":
            return f"PS({self.args[0]!r})"
        if self.kind == "PERM":
            return f"PERM({list(self.args[0])})"
        return f"Unitary({self.k}x{self.k} exact block)"

    def key(self):
        return [self.kind, self.k, qmat_key(self.U)]


def rand_leaf(rng: Rng, maxk: int, kinds=("BS", "BS", "PS", "PERM", "U")) -> Leaf:
    kind = rng.choice([k for k in kinds if (k != "BS" or maxk >= 2) and (k != "PERM" or maxk >= 2)] or ["PS"])
    if kind == "BS":
        cv = rng.below(3)
        t = rand_ang(rng, allow_trivial=rng.chance(1, 6))
        ph = [rand_ang(rng) if rng.chance(1, 2) else Ang(1, 0, 1) for _ in range(4)]
        return Leaf("BS", 2, bs_exact(cv, t, ph), (cv, 2 * t.value, [p.value for p in ph]))
    if kind == "PS":
        p = rand_ang(rng)
        return Leaf("PS", 1, [[QI(p.cos, p.sin)]], (p.value,))
    if kind == "PERM":
        n = rng.rint(2, min(maxk, 5))
        p = rng.shuffle(range(n))
        return Leaf("PERM", n, perm_exact(p), (p,))
    n = rng.rint(1, min(maxk, 4))
    return Leaf("U", n, rand_unitary_exact(rng, n), ())


def all_states(m: int, n: int):
    """exqalibur FSArray order: lexicographically decreasing."""
    if m == 1:
        return [[n]]
    out = []
    for a in range(n, -1, -1):
        for r in all_states(m - 1, n - a):
            out.append([a] + r)
    return out


def rand_state(rng: Rng, m: int, n: int):
    s = [0] * m
    for _ in range(n):
        s[rng.below(m)] += 1
    return s
