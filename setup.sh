#!/bin/bash
# Full clean build of the Coq development, extraction and the OCaml runner, offline, from files on disk.
set -e
cd "$(dirname "$0")"
cd coq
rm -f Makefile Makefile.conf .Makefile.d
find . -name '*.vo' -o -name '*.vok' -o -name '*.vos' -o -name '*.glob' -o -name '.*.aux' | xargs rm -f
coq_makefile -f _CoqProject -o Makefile
timeout 3000 make -j16 > ../.setup_coq.log 2>&1 || { tail -50 ../.setup_coq.log; exit 1; }
# models regenerated from /repo sources + their equivalence lemmas (re-done by every check as well)
python3 ../translator/py2gallina.py ${VERIF_REPO:-/repo} Gen > ../.setup_gen.log 2>&1 || { cat ../.setup_gen.log; exit 1; }
for g in Gen/Gen*.v; do n=$(basename $g .v); timeout 300 coqc -Q . PV $g && timeout 600 coqc -Q . PV GenProofs/${n}P.v > /dev/null || exit 1; done
cd ../ocaml
make -s clean
timeout 900 make -s runner
echo "setup ok"
