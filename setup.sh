#!/bin/bash
# Full clean build of the Coq development, extraction and the OCaml runner, offline, from files on disk.
set -e
cd "$(dirname "$0")"
cd coq
rm -f Makefile Makefile.conf .Makefile.d
find . -name '*.vo' -o -name '*.vok' -o -name '*.vos' -o -name '*.glob' -o -name '.*.aux' | xargs rm -f
coq_makefile -f _CoqProject -o Makefile
timeout 3000 make -j16 > ../.setup_coq.log 2>&1 || { tail -50 ../.setup_coq.log; exit 1; }
cd ../ocaml
make -s clean
timeout 900 make -s runner
echo "setup ok"
